//go:build verif

package main

import (
	"crypto/ecdsa"
	"crypto/elliptic"
	"crypto/rand"
	sx509 "crypto/x509"
	"crypto/x509/pkix"
	"encoding/asn1"
	"encoding/pem"
	"fmt"
	"math/big"
	"time"
)

// A small CA hierarchy generated with the standard library's crypto/x509 (NOT the ct-go fork
// that sunlight parses with), so that generation and parsing are independent code.

var (
	oidPoison  = asn1.ObjectIdentifier{1, 3, 6, 1, 4, 1, 11129, 2, 4, 3}
	oidSCTList = asn1.ObjectIdentifier{1, 3, 6, 1, 4, 1, 11129, 2, 4, 2}
	oidCTEKU   = asn1.ObjectIdentifier{1, 3, 6, 1, 4, 1, 11129, 2, 4, 4}
)

type authority struct {
	name   string
	cert   *sx509.Certificate
	der    []byte
	key    *ecdsa.PrivateKey
	parent *authority // nil: self-signed
}

// pathToRoot returns the authority and its ancestors, the root last.
func (a *authority) pathToRoot() []*authority {
	var p []*authority
	for x := a; x != nil; x = x.parent {
		p = append(p, x)
	}
	return p
}

func (a *authority) root() *authority {
	p := a.pathToRoot()
	return p[len(p)-1]
}

type pki struct {
	serial int64
	now    time.Time
}

func (p *pki) nextSerial() *big.Int {
	p.serial++
	return big.NewInt(0x5eed0000 + p.serial)
}

func mustKey() *ecdsa.PrivateKey {
	k, err := ecdsa.GenerateKey(elliptic.P256(), rand.Reader)
	if err != nil {
		panic(err)
	}
	return k
}

func poisonExt(kind int) []pkix.Extension {
	switch kind {
	case 1: // well-formed: critical, ASN.1 NULL
		return []pkix.Extension{{Id: oidPoison, Critical: true, Value: []byte{5, 0}}}
	case 2: // not critical
		return []pkix.Extension{{Id: oidPoison, Critical: false, Value: []byte{5, 0}}}
	case 3: // critical, but not NULL
		return []pkix.Extension{{Id: oidPoison, Critical: true, Value: []byte{4, 1, 0}}}
	case 4: // two well-formed poison extensions
		return []pkix.Extension{{Id: oidPoison, Critical: true, Value: []byte{5, 0}}, {Id: oidPoison, Critical: true, Value: []byte{5, 0}}}
	}
	return nil
}

type caOpts struct {
	ctEKU      bool // precertificate signing certificate
	poison     int
	serverAuth bool
	notAfter   time.Time
	key        *ecdsa.PrivateKey // reuse this key (a second certificate of an existing CA); nil: a new key
	ski        []byte            // explicit subject key identifier (a CA re-keyed under the same name and identifier)
}

// reissue mints ANOTHER certificate for the CA a: same subject, same key, new serial number,
// signed by parent (a's own parent: a re-issued intermediate; another CA: a cross-signed one).
// Everything a issued verifies through either certificate.
func (p *pki) reissue(a *authority, parent *authority) *authority {
	return p.newAuthority(a.name, parent, caOpts{ctEKU: a.cert.UnknownExtKeyUsage != nil, key: a.key})
}

func (p *pki) newAuthority(name string, parent *authority, o caOpts) *authority {
	key := o.key
	if key == nil {
		key = mustKey()
	}
	na := o.notAfter
	if na.IsZero() {
		na = p.now.Add(20 * 365 * 24 * time.Hour)
	}
	t := &sx509.Certificate{
		SerialNumber:          p.nextSerial(),
		Subject:               pkix.Name{CommonName: name, Organization: []string{"verif C09"}},
		NotBefore:             p.now.Add(-24 * time.Hour).Truncate(time.Second),
		NotAfter:              na,
		IsCA:                  true,
		BasicConstraintsValid: true,
		KeyUsage:              sx509.KeyUsageCertSign | sx509.KeyUsageDigitalSignature,
		ExtraExtensions:       poisonExt(o.poison),
		SubjectKeyId:          o.ski,
	}
	if o.ctEKU {
		t.UnknownExtKeyUsage = []asn1.ObjectIdentifier{oidCTEKU}
	}
	if o.serverAuth {
		t.ExtKeyUsage = []sx509.ExtKeyUsage{sx509.ExtKeyUsageServerAuth}
	}
	signer, signerKey := t, key
	if parent != nil {
		signer, signerKey = parent.cert, parent.key
	}
	der, err := sx509.CreateCertificate(rand.Reader, t, signer, &key.PublicKey, signerKey)
	if err != nil {
		panic(fmt.Sprintf("create authority %s: %v", name, err))
	}
	c, err := sx509.ParseCertificate(der)
	if err != nil {
		panic(fmt.Sprintf("parse authority %s: %v", name, err))
	}
	return &authority{name: name, cert: c, der: der, key: key, parent: parent}
}

type leafSpec struct {
	cn        string
	serial    *big.Int
	notBefore time.Time
	notAfter  time.Time
	eku       int // 0 serverAuth, 1 clientAuth only, 2 none, 3 serverAuth+clientAuth
	poison    int // see poisonExt
	sct       bool
	key       *ecdsa.PrivateKey
}

func (s leafSpec) template() *sx509.Certificate {
	t := &sx509.Certificate{
		SerialNumber: s.serial,
		Subject:      pkix.Name{CommonName: s.cn},
		DNSNames:     []string{s.cn},
		NotBefore:    s.notBefore,
		NotAfter:     s.notAfter,
		KeyUsage:     sx509.KeyUsageDigitalSignature,
	}
	switch s.eku {
	case 0:
		t.ExtKeyUsage = []sx509.ExtKeyUsage{sx509.ExtKeyUsageServerAuth}
	case 1:
		t.ExtKeyUsage = []sx509.ExtKeyUsage{sx509.ExtKeyUsageClientAuth}
	case 3:
		t.ExtKeyUsage = []sx509.ExtKeyUsage{sx509.ExtKeyUsageClientAuth, sx509.ExtKeyUsageServerAuth}
	}
	if s.sct {
		// SignedCertificateTimestampList with one (opaque) serialized SCT, wrapped in an OCTET STRING
		t.ExtraExtensions = append(t.ExtraExtensions, pkix.Extension{Id: oidSCTList, Value: []byte{4, 7, 0, 5, 0, 3, 0xaa, 0xbb, 0xcc}})
	}
	return t
}

// issue signs the leaf described by s with issuer. The poison extension (if any) is the last
// extension of the TBSCertificate.
func issue(issuer *authority, s leafSpec) []byte {
	t := s.template()
	t.ExtraExtensions = append(t.ExtraExtensions, poisonExt(s.poison)...)
	der, err := sx509.CreateCertificate(rand.Reader, t, issuer.cert, &s.key.PublicKey, issuer.key)
	if err != nil {
		panic(fmt.Sprintf("issue %s: %v", s.cn, err))
	}
	return der
}

// twinTBS is the TBSCertificate of the same certificate WITHOUT the poison extension issued
// directly by ca: by RFC 6962 section 3.2 this is what tbs_certificate of the precert entry
// must be (issuer changed to the final CA when a precertificate signing certificate was used).
// It is produced by the standard library's certificate builder, not by any defanging code.
func twinTBS(ca *authority, s leafSpec) []byte {
	t := s.template()
	der, err := sx509.CreateCertificate(rand.Reader, t, ca.cert, &s.key.PublicKey, ca.key)
	if err != nil {
		panic(fmt.Sprintf("twin %s: %v", s.cn, err))
	}
	c, err := sx509.ParseCertificate(der)
	if err != nil {
		panic(err)
	}
	return c.RawTBSCertificate
}

func spkiOf(a *authority) []byte {
	b, err := sx509.MarshalPKIXPublicKey(&a.key.PublicKey)
	if err != nil {
		panic(err)
	}
	return b
}

func pemOf(ders ...[]byte) []byte {
	var out []byte
	for _, d := range ders {
		out = append(out, pem.EncodeToMemory(&pem.Block{Type: "CERTIFICATE", Bytes: d})...)
	}
	return out
}
