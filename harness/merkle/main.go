//go:build verif

// Command merkle is the correspondence driver of the shared Merkle library (coq/Merkle/Proofs.v,
// Sound.v): it runs the REAL proof verifiers sunlight depends on,
//
//	golang.org/x/mod/sumdb/tlog:  CheckTree, CheckRecord (and TreeHash)
//	filippo.io/torchwood:         CheckSubtree, ValidSubtree (and SubtreeHash)
//
// on correct, mutated and malformed proofs over trees of SHA-256 leaf hashes built with tlog's
// own StoredHashes, and prints one line per case
//
//	op|arg|...|=>|result
//
// which the extracted Coq model (ocaml/merkle.ml) must reproduce. Lines whose op starts with
// mon_ are monitors evaluated on the implementation alone (result must be "holds"):
// ValidSubtree against two independent characterisations, and soundness observed on the
// implementation (an accepted proof against the true root implies the claimed hash equals
// the independently computed RFC 6962 hash).
//
// ops:  tree|t|n|th|h|proof      record|t|n|th|h|proof      subtree|t|s|e|th|sh|proof
//
//	valid|s|e                mth|leaf,leaf,...          (proof = comma separated hex, "-" if empty)
package main

import (
	"bufio"
	"encoding/hex"
	"flag"
	"fmt"
	"math/rand"
	"os"
	"strings"
	"time"

	"filippo.io/torchwood"
	"golang.org/x/mod/sumdb/tlog"
)

var out *bufio.Writer
var rng *rand.Rand

// ---------------------------------------------------------------------------------------------
// tree storage
// ---------------------------------------------------------------------------------------------

type tree struct {
	leaves []tlog.Hash
	stored []tlog.Hash
	naive  map[int64]tlog.Hash // cache of naiveMTH(leaves[:t])
}

// the independently computed hash of the first t leaves
func (tr *tree) prefix(t int64) tlog.Hash {
	if h, ok := tr.naive[t]; ok {
		return h
	}
	h := naiveMTH(tr.leaves[:t])
	tr.naive[t] = h
	return h
}

func (tr *tree) ReadHashes(indexes []int64) ([]tlog.Hash, error) {
	res := make([]tlog.Hash, 0, len(indexes))
	for _, j := range indexes {
		if j < 0 || j >= int64(len(tr.stored)) {
			return nil, fmt.Errorf("index %d out of range", j)
		}
		res = append(res, tr.stored[j])
	}
	return res, nil
}

func build(n int) *tree {
	tr := &tree{naive: map[int64]tlog.Hash{}}
	for i := 0; i < n; i++ {
		data := make([]byte, 1+rng.Intn(40))
		rng.Read(data)
		tr.leaves = append(tr.leaves, tlog.RecordHash(data))
		hs, err := tlog.StoredHashes(int64(i), data, tr)
		if err != nil {
			fatal("StoredHashes: %v", err)
		}
		tr.stored = append(tr.stored, hs...)
	}
	return tr
}

func (tr *tree) root(t int64) tlog.Hash {
	h, err := tlog.TreeHash(t, tr)
	if err != nil {
		fatal("TreeHash(%d): %v", t, err)
	}
	return h
}

func fatal(f string, a ...any) {
	out.Flush()
	fmt.Fprintf(os.Stderr, "harness/merkle: "+f+"\n", a...)
	os.Exit(2)
}

// naive RFC 6962 section 2.1 MTH, written independently of tlog (used by the monitors only)
func naiveMTH(d []tlog.Hash) tlog.Hash {
	switch len(d) {
	case 0:
		return tlog.Hash{0xe3, 0xb0, 0xc4, 0x42, 0x98, 0xfc, 0x1c, 0x14, 0x9a, 0xfb, 0xf4, 0xc8, 0x99, 0x6f, 0xb9, 0x24,
			0x27, 0xae, 0x41, 0xe4, 0x64, 0x9b, 0x93, 0x4c, 0xa4, 0x95, 0x99, 0x1b, 0x78, 0x52, 0xb8, 0x55}
	case 1:
		return d[0]
	}
	k := 1
	for 2*k < len(d) {
		k *= 2
	}
	return tlog.NodeHash(naiveMTH(d[:k]), naiveMTH(d[k:]))
}

// ---------------------------------------------------------------------------------------------
// rendering
// ---------------------------------------------------------------------------------------------

func hx(h tlog.Hash) string { return hex.EncodeToString(h[:]) }

func hxs(p []tlog.Hash) string {
	if len(p) == 0 {
		return "-"
	}
	s := make([]string, len(p))
	for i, h := range p {
		s[i] = hx(h)
	}
	return strings.Join(s, ",")
}

func classify(f func() error) (res string) {
	defer func() {
		if r := recover(); r != nil {
			res = "panic"
		}
	}()
	err := f()
	switch {
	case err == nil:
		return "ok"
	case err.Error() == "invalid transparency proof":
		return "failed"
	case strings.Contains(err.Error(), "invalid inputs"):
		return "invalid"
	}
	return "other:" + err.Error()
}

var counts = map[string]int{}
var accepted = map[string]int{} // accepted cases per op and kind ("correct" / mutated)
var completeFail = map[string]string{}

func emit(op, args, res string) {
	counts[op]++
	fmt.Fprintf(out, "%s|%s|=>|%s\n", op, args, res)
}

func mon(op, args string, ok bool, why string) {
	counts[op]++
	if ok {
		fmt.Fprintf(out, "%s|%s|=>|holds\n", op, args)
	} else {
		fmt.Fprintf(out, "%s|%s|=>|FAILS:%s\n", op, args, why)
	}
}

// monitor arguments: the numbers and the kind; the hashes only for non-standard cases (the
// correct case is reproducible from the seed, and the line above it carries the hashes)
func monArgs(kind, nums string, th, h tlog.Hash, p []tlog.Hash) string {
	if kind == "correct" {
		return nums + "|" + kind
	}
	return nums + "|" + kind + "|" + hx(th) + "|" + hx(h) + "|" + hxs(p)
}

// ---------------------------------------------------------------------------------------------
// the three checked operations (+ soundness monitors)
// ---------------------------------------------------------------------------------------------

func doTree(tr *tree, kind string, p []tlog.Hash, t int64, th tlog.Hash, n int64, h tlog.Hash) {
	res := classify(func() error { return tlog.CheckTree(tlog.TreeProof(p), t, th, n, h) })
	emit("tree", fmt.Sprintf("%d|%d|%s|%s|%s", t, n, hx(th), hx(h), hxs(p)), res)
	if kind == "correct" && res != "ok" && completeFail["tree"] == "" {
		completeFail["tree"] = fmt.Sprintf("t=%d n=%d res=%s", t, n, res)
	}
	if res == "ok" {
		accepted["tree/"+kind]++
		if tr != nil && t >= 0 && t <= int64(len(tr.leaves)) && th == tr.prefix(t) {
			want := tr.prefix(n)
			mon("mon_tree_sound", monArgs(kind, fmt.Sprintf("%d|%d", t, n), th, h, p), h == want,
				"CheckTree accepted old hash "+hx(h)+" but MTH(D[0:n]) = "+hx(want))
		}
	}
}

func doRecord(tr *tree, kind string, p []tlog.Hash, t int64, th tlog.Hash, n int64, h tlog.Hash) {
	res := classify(func() error { return tlog.CheckRecord(tlog.RecordProof(p), t, th, n, h) })
	emit("record", fmt.Sprintf("%d|%d|%s|%s|%s", t, n, hx(th), hx(h), hxs(p)), res)
	if kind == "correct" && res != "ok" && completeFail["record"] == "" {
		completeFail["record"] = fmt.Sprintf("t=%d n=%d res=%s", t, n, res)
	}
	if res == "ok" {
		accepted["record/"+kind]++
		if tr != nil && t >= 0 && t <= int64(len(tr.leaves)) && th == tr.prefix(t) {
			want := tr.leaves[n]
			mon("mon_record_sound", monArgs(kind, fmt.Sprintf("%d|%d", t, n), th, h, p), h == want,
				"CheckRecord accepted leaf hash "+hx(h)+" but leaf n is "+hx(want))
		}
	}
}

func doSubtree(tr *tree, kind string, p []tlog.Hash, t int64, th tlog.Hash, s, e int64, sh tlog.Hash) {
	res := classify(func() error { return torchwood.CheckSubtree(torchwood.SubtreeProof(p), t, th, s, e, sh) })
	emit("subtree", fmt.Sprintf("%d|%d|%d|%s|%s|%s", t, s, e, hx(th), hx(sh), hxs(p)), res)
	if kind == "correct" && res != "ok" && completeFail["subtree"] == "" {
		completeFail["subtree"] = fmt.Sprintf("t=%d s=%d e=%d res=%s", t, s, e, res)
	}
	if res == "ok" {
		accepted["subtree/"+kind]++
		if tr != nil && t >= 0 && t <= int64(len(tr.leaves)) && th == tr.prefix(t) {
			want := naiveMTH(tr.leaves[s:e])
			mon("mon_subtree_sound", monArgs(kind, fmt.Sprintf("%d|%d|%d", t, s, e), th, sh, p), sh == want,
				"CheckSubtree accepted subtree hash "+hx(sh)+" but MTH(D[s:e]) = "+hx(want))
		}
	}
}

// ---------------------------------------------------------------------------------------------
// ValidSubtree: the model op + two independent characterisations
// ---------------------------------------------------------------------------------------------

const maxN = int64(1) << 62

// smallest power of two >= m by doubling; [s,e) valid iff s is a multiple of it
func validArith(s, e int64) bool {
	if s < 0 || e <= s || e-s > maxN {
		return false
	}
	m := uint64(e - s)
	c := uint64(1)
	for c < m {
		c *= 2
	}
	return uint64(s)%c == 0
}

// [s,e) valid iff the node [s,e) lies on the right edge of the RFC 6962 tree of size e
// (descend from the root [0,e) into right children only, splitting at the largest power of
// two smaller than the node size)
func validWalk(s, e int64) bool {
	if s < 0 || e <= s || e-s > maxN {
		return false
	}
	lo := uint64(0)
	for {
		if lo == uint64(s) {
			return true
		}
		size := uint64(e) - lo
		if size < 2 || lo > uint64(s) {
			return false
		}
		k := uint64(1)
		for 2*k < size {
			k *= 2
		}
		lo += k
	}
}

func doValid(s, e int64) bool {
	v := torchwood.ValidSubtree(s, e)
	emit("valid", fmt.Sprintf("%d|%d", s, e), fmt.Sprint(v))
	a, w := validArith(s, e), validWalk(s, e)
	mon("mon_valid", fmt.Sprintf("%d|%d", s, e), v == a && v == w,
		fmt.Sprintf("ValidSubtree=%v multiple-of-bitceil=%v right-edge-walk=%v", v, a, w))
	return v
}

// ---------------------------------------------------------------------------------------------
// mutations
// ---------------------------------------------------------------------------------------------

func randHash() tlog.Hash {
	var h tlog.Hash
	rng.Read(h[:])
	return h
}

func flipBit(h tlog.Hash) tlog.Hash {
	i := rng.Intn(256)
	h[i/8] ^= 1 << uint(i%8)
	return h
}

type mutant struct {
	kind string
	p    []tlog.Hash
}

func clone(p []tlog.Hash) []tlog.Hash { return append([]tlog.Hash{}, p...) }

func mutants(p []tlog.Hash) []mutant {
	var ms []mutant
	if len(p) > 0 {
		q := clone(p)
		i := rng.Intn(len(q))
		q[i] = flipBit(q[i])
		ms = append(ms, mutant{"flip", q})
		ms = append(ms, mutant{"trunc_last", clone(p[:len(p)-1])})
		ms = append(ms, mutant{"trunc_first", clone(p[1:])})
		ms = append(ms, mutant{"dup_last", append(clone(p), p[len(p)-1])})
		ms = append(ms, mutant{"empty", nil})
	}
	ms = append(ms, mutant{"ext_last", append(clone(p), randHash())})
	ms = append(ms, mutant{"ext_first", append([]tlog.Hash{randHash()}, p...)})
	if len(p) > 1 {
		q := clone(p)
		i := rng.Intn(len(q) - 1)
		q[i], q[i+1] = q[i+1], q[i]
		ms = append(ms, mutant{"swap", q})
		r := clone(p)
		for a, b := 0, len(r)-1; a < b; a, b = a+1, b-1 {
			r[a], r[b] = r[b], r[a]
		}
		ms = append(ms, mutant{"reverse", r})
	}
	return ms
}

// pick at most k of the mutants (k <= 0: all)
func pick(ms []mutant, k int) []mutant {
	if k <= 0 || len(ms) <= k {
		return ms
	}
	rng.Shuffle(len(ms), func(i, j int) { ms[i], ms[j] = ms[j], ms[i] })
	return ms[:k]
}

// ---------------------------------------------------------------------------------------------
// case families
// ---------------------------------------------------------------------------------------------

func treeCases(tr *tree, t, n int64, nmut int) {
	size := int64(len(tr.leaves))
	p, err := tlog.ProveTree(t, n, tr)
	if err != nil {
		fatal("ProveTree(%d,%d): %v", t, n, err)
	}
	th, h := tr.root(t), tr.root(n)
	doTree(tr, "correct", p, t, th, n, h)
	for _, m := range pick(mutants(p), nmut) {
		doTree(tr, m.kind, m.p, t, th, n, h)
	}
	switch rng.Intn(4) {
	case 0:
		doTree(tr, "wrong_root", p, t, flipBit(th), n, h)
	case 1:
		doTree(tr, "wrong_old", p, t, th, n, flipBit(h))
	case 2: // proof of another (t', n') against this claim
		t2 := 1 + rng.Int63n(size)
		n2 := 1 + rng.Int63n(t2)
		p2, _ := tlog.ProveTree(t2, n2, tr)
		doTree(tr, "other_proof", p2, t, th, n, h)
	case 3: // right proof, claim about another old size
		n2 := 1 + rng.Int63n(t)
		doTree(tr, "other_n", p, t, th, n2, tr.root(n2))
	}
}

func recordCases(tr *tree, t, n int64, nmut int) {
	size := int64(len(tr.leaves))
	p, err := tlog.ProveRecord(t, n, tr)
	if err != nil {
		fatal("ProveRecord(%d,%d): %v", t, n, err)
	}
	th, h := tr.root(t), tr.leaves[n]
	doRecord(tr, "correct", p, t, th, n, h)
	for _, m := range pick(mutants(p), nmut) {
		doRecord(tr, m.kind, m.p, t, th, n, h)
	}
	switch rng.Intn(4) {
	case 0:
		doRecord(tr, "wrong_root", p, t, flipBit(th), n, h)
	case 1:
		doRecord(tr, "wrong_leaf", p, t, th, n, flipBit(h))
	case 2:
		t2 := 1 + rng.Int63n(size)
		n2 := rng.Int63n(t2)
		p2, _ := tlog.ProveRecord(t2, n2, tr)
		doRecord(tr, "other_proof", p2, t, th, n, h)
	case 3:
		n2 := rng.Int63n(t)
		doRecord(tr, "other_n", p, t, th, n2, tr.leaves[n2])
	}
}

func subtreeCases(tr *tree, t, s, e int64, nmut int) {
	p, err := torchwood.ProveSubtree(t, s, e, tr)
	if err != nil {
		fatal("ProveSubtree(%d,%d,%d): %v", t, s, e, err)
	}
	sh, err := torchwood.SubtreeHash(s, e, tr)
	if err != nil {
		fatal("SubtreeHash(%d,%d): %v", s, e, err)
	}
	th := tr.root(t)
	doSubtree(tr, "correct", p, t, th, s, e, sh)
	if nmut < 0 {
		return
	}
	for _, m := range pick(mutants(p), nmut) {
		doSubtree(tr, m.kind, m.p, t, th, s, e, sh)
	}
	switch rng.Intn(5) {
	case 0:
		doSubtree(tr, "wrong_root", p, t, flipBit(th), s, e, sh)
	case 1:
		doSubtree(tr, "wrong_sub", p, t, th, s, e, flipBit(sh))
	case 2: // the same proof claimed for a shifted / resized range (valid or not)
		s2, e2 := s+int64(rng.Intn(3))-1, e+int64(rng.Intn(3))-1
		doSubtree(tr, "other_range", p, t, th, s2, e2, sh)
	case 3: // proof of another valid subtree of the same tree
		s2, e2 := randValid(t)
		p2, _ := torchwood.ProveSubtree(t, s2, e2, tr)
		doSubtree(tr, "other_proof", p2, t, th, s, e, sh)
	case 4: // a tlog consistency / inclusion proof is a special case (start 0 / size 1)
		if s == 0 {
			p2, _ := tlog.ProveTree(t, e, tr)
			doSubtree(tr, "correct", p2, t, th, s, e, sh)
		} else if e == s+1 {
			p2, _ := tlog.ProveRecord(t, s, tr)
			doSubtree(tr, "correct", p2, t, th, s, e, sh)
		}
	}
}

// a random valid subtree [s,e) with e <= t
func randValid(t int64) (int64, int64) {
	for {
		j := uint(rng.Intn(63))
		c := int64(1) << j
		if c > 1 && c/2 >= t {
			continue
		}
		var m int64 = 1
		if c > 1 {
			m = c/2 + 1 + rng.Int63n(c/2)
		}
		if m > t {
			continue
		}
		q := (t - m) / c // s = c*i with s+m <= t
		s := c * rng.Int63n(q+1)
		if !torchwood.ValidSubtree(s, s+m) {
			fatal("randValid produced invalid [%d,%d)", s, s+m)
		}
		return s, s + m
	}
}

func interesting(t int64) int64 { // an index in [1,t] biased to boundaries and powers of two
	switch rng.Intn(6) {
	case 0:
		return t
	case 1:
		return 1
	case 2:
		k := int64(1) << uint(rng.Intn(62))
		for k > t {
			k /= 2
		}
		d := k + int64(rng.Intn(3)) - 1
		if d >= 1 && d <= t {
			return d
		}
		return k
	}
	return 1 + rng.Int63n(t)
}

// tlog.maxpow2 loops `for 1<<uint(l+1) < n`; for n > 2^62 the shift wraps (1<<63 < 0, 1<<64 == 0)
// and the loop does not terminate in practice. The models use unbounded N, so sizes above 2^62
// are outside the range on which model and implementation are compared; this probe documents
// what the implementation does there (torchwood guards with maxN, tlog.CheckTree/CheckRecord
// do not).
func probeHuge() {
	for _, t := range []int64{maxN, maxN + 1, 1<<63 - 1} {
		done := make(chan string, 1)
		go func() {
			done <- classify(func() error {
				return tlog.CheckTree(tlog.TreeProof{randHash()}, t, randHash(), 1, randHash())
			})
		}()
		select {
		case r := <-done:
			fmt.Fprintf(out, "probe CheckTree(p=[1 hash], t=%d, n=1) returned %s\n", t, r)
		case <-time.After(2 * time.Second):
			fmt.Fprintf(out, "probe CheckTree(p=[1 hash], t=%d, n=1) DID NOT RETURN within 2s\n", t)
		}
	}
}

func main() {
	seed := flag.Int64("seed", 1, "random seed")
	max := flag.Int("max", 70, "exhaustive bound on the tree size")
	nrand := flag.Int("n", 600, "number of random cases on the big tree")
	big := flag.Int("big", 3000, "size of the big tree")
	nmut := flag.Int("mut", 3, "mutants per case (0 = all)")
	probe := flag.Bool("probe", false, "only probe tlog.CheckTree on sizes above 2^62 (outside the modelled range) and exit")
	flag.Parse()
	rng = rand.New(rand.NewSource(*seed))
	out = bufio.NewWriterSize(os.Stdout, 1<<20)
	defer out.Flush()
	if *probe {
		probeHuge()
		return
	}

	M := int64(*max)
	tr := build(*max)

	// --- mth: tlog.TreeHash / torchwood.SubtreeHash against the model's RFC 6962 mth ---
	for t := int64(0); t <= M; t++ {
		emit("mth", hxs(tr.leaves[:t]), hx(tr.root(t)))
		mon("mon_mth", fmt.Sprint(t), tr.root(t) == naiveMTH(tr.leaves[:t]), "TreeHash differs from the naive RFC 6962 recursion")
	}

	// --- ValidSubtree on every (s,e) in [-1,M+1]^2, CheckSubtree on every 0 <= s, e <= M ---
	th := tr.root(M)
	for s := int64(-1); s <= M+1; s++ {
		for e := int64(-1); e <= M+1; e++ {
			v := doValid(s, e)
			if s < 0 || e < 0 || e > M {
				continue
			}
			if v {
				sh, err := torchwood.SubtreeHash(s, e, tr)
				if err != nil {
					fatal("SubtreeHash(%d,%d): %v", s, e, err)
				}
				emit("mth", hxs(tr.leaves[s:e]), hx(sh))
				subtreeCases(tr, M, s, e, *nmut)
			} else {
				// invalid range: whatever the proof, the answer is "invalid"
				var p []tlog.Hash
				for i := rng.Intn(4); i > 0; i-- {
					p = append(p, randHash())
				}
				sh := randHash()
				if s < e {
					sh = naiveMTH(tr.leaves[s:e])
				}
				doSubtree(tr, "invalid_range", p, M, th, s, e, sh)
			}
		}
	}
	// every tree size t <= M, every valid subtree of it: the correct proof (mutants for a sample)
	for t := int64(1); t <= M; t++ {
		for e := int64(1); e <= t; e++ {
			for s := int64(0); s < e; s++ {
				if !torchwood.ValidSubtree(s, e) {
					continue
				}
				k := -1
				if rng.Intn(8) == 0 {
					k = 2
				}
				subtreeCases(tr, t, s, e, k)
			}
		}
		// end > t, t = 0, negative arguments
		doSubtree(tr, "invalid_range", nil, t, tr.root(t), 0, t+1, randHash())
		doSubtree(tr, "invalid_range", nil, t, tr.root(t), -1, t, randHash())
	}
	doSubtree(tr, "invalid_range", nil, 0, tr.root(0), 0, 0, tr.root(0))
	doSubtree(tr, "invalid_range", nil, 0, tr.root(0), 0, 1, tr.root(0))
	doSubtree(tr, "invalid_range", nil, -1, tr.root(0), 0, 1, tr.root(0))
	doSubtree(nil, "invalid_range", nil, maxN+1, randHash(), 0, 1, randHash())
	doSubtree(nil, "huge", []tlog.Hash{randHash()}, maxN, randHash(), 0, 1, randHash())
	doSubtree(nil, "huge", []tlog.Hash{randHash(), randHash()}, maxN, randHash(), maxN/2, maxN, randHash())

	// --- CheckTree / CheckRecord: every (t,n) with t <= M ---
	for t := int64(1); t <= M; t++ {
		for n := int64(1); n <= t; n++ {
			treeCases(tr, t, n, *nmut)
			recordCases(tr, t, n-1, *nmut)
		}
		// invalid inputs
		rt := tr.root(t)
		doTree(tr, "invalid_range", nil, t, rt, 0, tr.root(0))
		doTree(tr, "invalid_range", nil, t, rt, t+1, rt)
		doTree(tr, "invalid_range", nil, t, rt, -1, rt)
		doRecord(tr, "invalid_range", nil, t, rt, t, rt)
		doRecord(tr, "invalid_range", nil, t, rt, -1, rt)
		doRecord(tr, "invalid_range", nil, t, rt, t+1+int64(rng.Intn(5)), rt)
	}
	doTree(tr, "invalid_range", nil, 0, tr.root(0), 0, tr.root(0))
	doTree(tr, "invalid_range", nil, -1, tr.root(0), 1, tr.root(0))
	doTree(tr, "invalid_range", nil, 0, tr.root(0), 1, tr.root(0))
	doRecord(tr, "invalid_range", nil, 0, tr.root(0), 0, tr.root(0))
	doRecord(tr, "invalid_range", nil, -1, tr.root(0), 0, tr.root(0))

	// --- ValidSubtree on large arguments (boundaries of maxN = 2^62, random aligned starts) ---
	for _, d := range []int64{-2, -1, 0, 1, 2} {
		for _, d2 := range []int64{-1, 0, 1} {
			doValid(0+d2, maxN+d)
			doValid(maxN+d2, maxN+maxN/2+d)
			doValid(maxN/2+d2, maxN+d)
			doValid(maxN+d, maxN+d+1+d2)
		}
	}
	doValid(0, 1<<63-1)
	doValid(1<<63-2, 1<<63-1)
	doValid(maxN, 1<<63-1)
	for i := 0; i < 400; i++ {
		j := uint(rng.Intn(62))
		c := int64(1) << j
		s := c * rng.Int63n((1<<62)/c)
		m := 1 + rng.Int63n(c)
		switch rng.Intn(4) {
		case 0:
			s += int64(1) << uint(rng.Intn(int(j)+1)) >> 1 // misalign by a smaller power of two (or 0)
		case 1:
			m = c + 1 + rng.Int63n(c) // one level too large for this alignment (may still be aligned)
		}
		doValid(s, s+m)
	}

	// --- verifiers on huge sizes (no tree behind them): depth/length logic only ---
	for i := 0; i < 60; i++ {
		t := maxN - rng.Int63n(4)
		if i%3 == 0 {
			t = 1 + rng.Int63n(maxN)
		}
		n := interesting(t)
		var p []tlog.Hash
		for k := rng.Intn(70); k > 0; k-- {
			p = append(p, randHash())
		}
		doTree(nil, "huge", p, t, randHash(), n, randHash())
		doRecord(nil, "huge", p, t, randHash(), n-1, randHash())
		s, e := randValid(t)
		doSubtree(nil, "huge", p, t, randHash(), s, e, randHash())
	}

	// --- random cases on a big tree ---
	if *nrand > 0 {
		bt := build(*big)
		B := int64(*big)
		for _, t := range []int64{B, B - 1, 2048, 2047, 2049, 1024} {
			if t >= 1 && t <= B {
				emit("mth", hxs(bt.leaves[:t]), hx(bt.root(t)))
			}
		}
		for i := 0; i < *nrand; i++ {
			t := interesting(B)
			n := interesting(t)
			treeCases(bt, t, n, *nmut)
			recordCases(bt, t, n-1, *nmut)
			s, e := randValid(t)
			subtreeCases(bt, t, s, e, *nmut)
			if i%10 == 0 && e-s <= 600 {
				sh, _ := torchwood.SubtreeHash(s, e, bt)
				emit("mth", hxs(bt.leaves[s:e]), hx(sh))
			}
		}
	}

	// --- completeness of the provers/verifiers pair (every correct proof was accepted) ---
	for _, op := range []string{"tree", "record", "subtree"} {
		mon("mon_complete", fmt.Sprintf("%s|%d", op, accepted[op+"/correct"]), completeFail[op] == "",
			"a proof produced by the prover was rejected: "+completeFail[op])
	}
	out.Flush()
	// distribution summary on stderr (evidence)
	for k, v := range accepted {
		fmt.Fprintf(os.Stderr, "accepted %s %d\n", k, v)
	}
	for k, v := range counts {
		fmt.Fprintf(os.Stderr, "count %s %d\n", k, v)
	}
}
