//go:build verif

// Write-fault mode of the C13 driver (-mode=wfault): uploads through the REAL LocalBackend /
// durable.WriteFile while write(2) on the temporary file fails partway:
//
//	fsize   RLIMIT_FSIZE = limit with SIGXFSZ ignored: the kernel lets `limit` bytes through and
//	        answers EFBIG for the rest (behaves like a quota / disk-full error after part of the
//	        data was written). The limit is in force only around the operation under test.
//	enospc  the backend directory is a tmpfs of `limit` bytes: ENOSPC once it is full.
//
// The limit is process wide (it would also cut the harness' own output files), and a tmpfs mount
// is visible system wide, so this mode is never mixed with the other modes: checks/c13.py runs it
// as a process of its own, and that process re-executes itself once in a private mount namespace
// (the mounts vanish with it). All lines are monitors (`mon_wfault_*`, no model counterpart: the
// Coq system-call model has no failing write on a regular file) or observations (`obs|...`,
// `stat|...`; they carry no `=>` field and are read only by checks/c13.py).
//
//	mon_wfault_complete  an Upload / WriteFile that RETURNED NIL leaves exactly the uploaded bytes
//	                     readable under the key (and every other object as it was)
//	mon_wfault_intact    an Upload / WriteFile that FAILED leaves the previous object (or its
//	                     absence) intact, no partial object under the key, other objects as they were
//	mon_wfault_retry     after the faulted upload, with the fault lifted, uploading the identical
//	                     bytes succeeds and the object is complete (immutable and mutable keys)
//	mon_wfault_tmp       a failed write leaves no new entry that a reader or the partial-tile
//	                     collector takes for an object (a leftover dot-named temporary file is
//	                     reported as an observation, not as a failure)
//
// Case fields (all monitors): api|fault|limit|key|prev|previmm|data|imm|neighbours|outcome
package main

import (
	"bufio"
	"bytes"
	"crypto/sha256"
	"encoding/hex"
	"errors"
	"fmt"
	"io/fs"
	"math/rand"
	"os"
	"os/exec"
	"os/signal"
	"path/filepath"
	"sort"
	"strconv"
	"strings"
	"syscall"

	"filippo.io/sunlight"
	"filippo.io/sunlight/internal/ctlog"
	"filippo.io/sunlight/internal/durable"
)

type wcase struct {
	api     string    // upload | writefile
	fault   string    // fsize | enospc
	limit   int64     // RLIMIT_FSIZE value / size of the tmpfs in bytes
	key     string
	prev    *dataSpec // object under the key before the operation (nil: absent)
	prevImm bool
	d       dataSpec
	imm     bool
	nb      bool // other objects exist next to the key and elsewhere
}

func (c wcase) fields(outcome string) string {
	prev := "absent"
	if c.prev != nil {
		prev = c.prev.spec
	}
	return strings.Join([]string{c.api, c.fault, strconv.FormatInt(c.limit, 10), hx([]byte(c.key)), prev, b2i(c.prevImm),
		c.d.spec, b2i(c.imm), b2i(c.nb), outcome}, "|")
}

func parseWcase(f []string) (wcase, bool) {
	if len(f) < 9 {
		return wcase{}, false
	}
	c := wcase{api: f[0], fault: f[1], key: string(unhx(f[3])), prevImm: f[5] == "1", d: parseData(f[6]), imm: f[7] == "1", nb: f[8] == "1"}
	c.limit, _ = strconv.ParseInt(f[2], 10, 64)
	if f[4] != "absent" {
		p := parseData(f[4])
		c.prev = &p
	}
	if (c.api != "upload" && c.api != "writefile") || (c.fault != "fsize" && c.fault != "enospc") {
		return c, false
	}
	return c, true
}

func wclass(err error) string {
	switch {
	case err == nil:
		return "ok"
	case errors.Is(err, syscall.EFBIG):
		return "efbig"
	case errors.Is(err, syscall.ENOSPC):
		return "enospc"
	case errors.Is(err, syscall.EDQUOT):
		return "edquot"
	case errors.Is(err, syscall.EIO):
		return "eio"
	}
	c := class(err)
	if strings.HasPrefix(c, "other:") {
		return "other"
	}
	return c
}

// runs f with RLIMIT_FSIZE = limit (soft limit only; the hard limit is left alone so that the
// previous value can be restored)
func withFsize(limit int64, f func()) error {
	var orig syscall.Rlimit
	if err := syscall.Getrlimit(syscall.RLIMIT_FSIZE, &orig); err != nil {
		return err
	}
	lim := orig
	lim.Cur = uint64(limit)
	if err := syscall.Setrlimit(syscall.RLIMIT_FSIZE, &lim); err != nil {
		return err
	}
	defer func() {
		if err := syscall.Setrlimit(syscall.RLIMIT_FSIZE, &orig); err != nil {
			// nothing of this process may write a file any more: stop at once
			os.Stderr.WriteString("cannot restore RLIMIT_FSIZE: " + err.Error() + "\n")
			os.Exit(4)
		}
	}()
	f()
	return nil
}

// every entry below dir: relative path -> "d" or the SHA-256 of the whole contents
func snapshot(dir string) map[string]string {
	m := map[string]string{}
	filepath.WalkDir(dir, func(p string, d fs.DirEntry, err error) error {
		if err != nil || p == dir {
			return nil
		}
		rel, _ := filepath.Rel(dir, p)
		if d.IsDir() {
			m[rel] = "d"
			return nil
		}
		b, err := os.ReadFile(p)
		if err != nil {
			m[rel] = "?" + class(err)
			return nil
		}
		h := sha256.Sum256(b)
		m[rel] = fmt.Sprintf("%d:%s", len(b), hex.EncodeToString(h[:8]))
		return nil
	})
	return m
}

var wstat = map[string]int{}

func obs(kind string, detail string) {
	fmt.Fprintf(out, "obs|%s|%s\n", kind, strings.ReplaceAll(strings.ReplaceAll(detail, "|", "/"), "\n", " "))
}

var mountsOK = true

func describe(b []byte, want []byte, old []byte, hadOld bool) string {
	s := fmt.Sprintf("%d bytes readable", len(b))
	switch {
	case bytes.Equal(b, want):
		s += " (the complete new object)"
	case hadOld && bytes.Equal(b, old):
		s += " (the previous object)"
	case len(b) < len(want) && bytes.Equal(b, want[:len(b)]):
		s += fmt.Sprintf(" = a strict prefix of the %d uploaded bytes", len(want))
	default:
		s += fmt.Sprintf(", neither the previous object nor the %d uploaded bytes", len(want))
	}
	return s
}

func runWcase(c wcase) {
	e := newEnv(true)
	defer func() {
		if c.fault == "enospc" {
			filepath.WalkDir(e.dir, func(p string, d fs.DirEntry, err error) error {
				if err == nil && d.Type().IsRegular() {
					clearImmutable(p)
				}
				return nil
			})
			syscall.Unmount(e.dir, syscall.MNT_DETACH)
		}
		e.close()
	}()
	if c.fault == "enospc" {
		if !mountsOK {
			return
		}
		if err := syscall.Mount("tmpfs", e.dir, "tmpfs", 0, fmt.Sprintf("size=%d,mode=0755", c.limit)); err != nil {
			obs("enospc-cases-skipped", "mount of a tmpfs failed: "+err.Error())
			mountsOK = false
			return
		}
	}
	im := func(b bool) *ctlog.UploadOptions {
		if b {
			return &ctlog.UploadOptions{Immutable: true}
		}
		return nil
	}
	path := filepath.Join(e.dir, c.key)
	put := func(d []byte, imm bool) error {
		if c.api == "writefile" {
			if err := durable.MkdirAll(filepath.Dir(path), 0755); err != nil {
				return err
			}
			return durable.WriteFile(path, d, 0644)
		}
		return e.b.Upload(e.ctx, c.key, d, im(imm))
	}
	get := func() ([]byte, error) {
		if c.api == "writefile" {
			return os.ReadFile(path)
		}
		return e.b.Fetch(e.ctx, c.key)
	}
	// ---- the state before: neighbours, previous object
	if c.nb {
		nk := filepath.Join(filepath.Dir(c.key), "neighbour")
		for _, x := range []struct {
			k   string
			imm bool
		}{{nk, true}, {nk + "2", false}, {"elsewhere/object", true}} {
			if err := e.b.Upload(e.ctx, x.k, []byte("neighbour object "+x.k), im(x.imm)); err != nil {
				obs("setup-failed", c.fields("-")+" neighbour: "+wclass(err))
				return
			}
		}
	}
	var old []byte
	if c.prev != nil {
		old = c.prev.b
		var err error
		if c.api == "writefile" {
			err = put(old, false)
		} else {
			err = e.b.Upload(e.ctx, c.key, old, im(c.prevImm))
		}
		if err != nil {
			obs("setup-failed", c.fields("-")+" previous object: "+wclass(err))
			return
		}
	}
	before := snapshot(e.dir)
	// ---- the operation under test, with the fault armed
	var err error
	if c.fault == "fsize" {
		if lerr := withFsize(c.limit, func() { err = put(c.d.b, c.imm) }); lerr != nil {
			obs("fsize-cases-skipped", "setrlimit: "+lerr.Error())
			return
		}
	} else {
		err = put(c.d.b, c.imm)
	}
	outcome := wclass(err)
	args := c.fields(outcome)
	wstat["cases"]++
	wstat["outcome:"+outcome]++
	wstat["fault:"+c.fault]++
	if err != nil {
		wstat["failed_operations"]++
	}
	got, gerr := get()
	after := snapshot(e.dir)
	krel := filepath.Clean(c.key)
	// other objects: every entry that existed before still exists with the same contents
	others := ""
	var names []string
	for rel := range before {
		names = append(names, rel)
	}
	sort.Strings(names)
	for _, rel := range names {
		if rel == krel {
			continue
		}
		if after[rel] != before[rel] {
			others = fmt.Sprintf("FAILS:C13-write-fault-damaged-another-object:%s was %s is %q", hx([]byte(rel)), before[rel], after[rel])
			break
		}
	}
	// ---- (1) / (2)
	if err == nil {
		res := "holds"
		if gerr != nil {
			res = fmt.Sprintf("FAILS:C13-partial-object-published: %s returned nil but the object is not readable (%s); %d bytes were uploaded with the write fault %s at %d bytes",
				c.api, wclass(gerr), len(c.d.b), c.fault, c.limit)
		} else if !bytes.Equal(got, c.d.b) {
			res = fmt.Sprintf("FAILS:C13-partial-object-published: %s returned nil but %s; write fault %s at %d bytes",
				c.api, describe(got, c.d.b, old, c.prev != nil), c.fault, c.limit)
		} else if others != "" {
			res = others
		}
		emit("mon_wfault_complete", args, res)
	} else {
		res := "holds"
		switch {
		case c.prev == nil && gerr == nil:
			res = fmt.Sprintf("FAILS:C13-failed-upload-left-an-object: %s failed (%s) but %s under a key that had no object",
				c.api, outcome, describe(got, c.d.b, nil, false))
		case c.prev == nil && !errors.Is(gerr, fs.ErrNotExist):
			res = "FAILS:C13-failed-upload-left-an-object: the key had no object, now reading it fails with " + wclass(gerr)
		case c.prev != nil && gerr != nil:
			res = fmt.Sprintf("FAILS:C13-failed-upload-destroyed-the-object: %s failed (%s) and the previous object is no longer readable (%s)", c.api, outcome, wclass(gerr))
		case c.prev != nil && !bytes.Equal(got, old):
			res = fmt.Sprintf("FAILS:C13-failed-upload-replaced-the-object: %s failed (%s) but %s instead of the previous %d bytes",
				c.api, outcome, describe(got, c.d.b, nil, false), len(old))
		case others != "":
			res = others
		}
		emit("mon_wfault_intact", args, res)
		// ---- (4) new entries after a failed write
		res = "holds"
		names = names[:0]
		for rel := range after {
			names = append(names, rel)
		}
		sort.Strings(names)
		for _, rel := range names {
			if _, was := before[rel]; was || rel == krel || after[rel] == "d" {
				continue
			}
			base := filepath.Base(rel)
			_, perr := sunlight.ParseTilePath(rel)
			if !strings.HasPrefix(base, ".") || perr == nil {
				res = fmt.Sprintf("FAILS:C13-failed-write-left-a-stray-object:%s (%s) is taken for an object", hx([]byte(rel)), after[rel])
				break
			}
			wstat["temp_files_left"]++
			obs("temporary-file-left-by-failed-write", fmt.Sprintf("%s (%s) after %s", rel, after[rel], args))
		}
		emit("mon_wfault_tmp", args, res)
	}
	// ---- (3) the retry, fault lifted
	if c.fault == "enospc" {
		// "space is back": the tmpfs grows
		if merr := syscall.Mount("tmpfs", e.dir, "tmpfs", syscall.MS_REMOUNT, fmt.Sprintf("size=%d,mode=0755", c.limit+int64(2*len(c.d.b))+(1<<20))); merr != nil {
			obs("enospc-retry-skipped", "remount: "+merr.Error())
			return
		}
	}
	if c.api == "upload" && c.prev != nil && c.prevImm && !(c.imm && bytes.Equal(old, c.d.b)) {
		return // an immutable object holds other bytes: the upload is refused whatever the fault
	}
	rerr := put(append([]byte{}, c.d.b...), c.imm)
	got, gerr = get()
	res := "holds"
	switch {
	case rerr != nil:
		res = fmt.Sprintf("FAILS:C13-retry-with-identical-bytes-rejected:%s after the faulted %s returned %s; object: ", class(rerr), c.api, outcome)
		if gerr != nil {
			res += "unreadable (" + wclass(gerr) + ")"
		} else {
			res += describe(got, c.d.b, old, c.prev != nil)
		}
	case gerr != nil:
		res = "FAILS:C13-retry-object-unreadable:" + wclass(gerr)
	case !bytes.Equal(got, c.d.b):
		res = "FAILS:C13-retry-object-incomplete: " + describe(got, c.d.b, old, c.prev != nil)
	}
	emit("mon_wfault_retry", args, res)
}

// the fault injection itself, independent of the code under test
func probeFsize() bool {
	d, err := os.MkdirTemp(scratchBase, "c13-probe-")
	if err != nil {
		return false
	}
	defer os.RemoveAll(d)
	var werr error
	if withFsize(100, func() { werr = os.WriteFile(filepath.Join(d, "p"), make([]byte, 200), 0644) }) != nil {
		return false
	}
	b, _ := os.ReadFile(filepath.Join(d, "p"))
	return errors.Is(werr, syscall.EFBIG) && len(b) == 100
}

func scriptedWcases() []wcase {
	old := lit([]byte("old complete object\n"))
	v1 := lit([]byte("v1\n"))
	big := gen(3<<20, 7)
	var cs []wcase
	// the three manifestations: mutable overwrite, first immutable upload, new nested directory
	cs = append(cs,
		wcase{"upload", "fsize", 1 << 20, "checkpoint", &old, false, big, false, false},
		wcase{"upload", "fsize", 1 << 20, "tile/data/000", nil, false, big, true, false},
		wcase{"upload", "fsize", 1 << 20, "tile/data/x001/x234/067", nil, false, gen(3<<20, 8), true, true},
		wcase{"upload", "fsize", 1 << 20, "staging/42", nil, false, big, false, true},
		wcase{"writefile", "fsize", 1 << 20, "checkpoint", &old, false, big, false, true},
		wcase{"writefile", "fsize", 1 << 20, "a/b/new", nil, false, big, false, false},
	)
	// no byte goes through / all but the last byte go through / small objects
	for _, api := range []string{"upload", "writefile"} {
		cs = append(cs,
			wcase{api, "fsize", 0, "checkpoint", &v1, false, lit([]byte("version two\n")), false, true},
			wcase{api, "fsize", 0, "k", nil, false, lit([]byte{0}), api == "upload", false},
			wcase{api, "fsize", 11, "checkpoint", &v1, false, lit([]byte("version two\n")), false, false},
			wcase{api, "fsize", 2, "checkpoint", &old, false, v1, false, true}, // shorter than the previous object
			wcase{api, "fsize", 16384, "tile/0/000", nil, false, gen(16385, 3), api == "upload", true},
			wcase{api, "fsize", 4096, "tile/0/001", nil, false, gen(8192, 4), api == "upload", true},
			wcase{api, "fsize", 65536, "issuer/ab", nil, false, gen(65537, 5), api == "upload", false},
		)
	}
	// same length as the previous object, previous object immutable (refused before any write)
	p2 := gen(5000, 1)
	cs = append(cs,
		wcase{"upload", "fsize", 2500, "checkpoint", &p2, false, gen(5000, 2), false, true},
		wcase{"upload", "fsize", 2500, "frozen", &p2, true, gen(5000, 2), true, true},
		wcase{"upload", "fsize", 2500, "frozen", &p2, true, gen(5000, 1), true, true},
	)
	// controls: the limit is not reached, nothing may fail
	cs = append(cs,
		wcase{"upload", "fsize", 3 << 20, "tile/data/000", nil, false, big, true, true},
		wcase{"upload", "fsize", 12, "checkpoint", &v1, false, lit([]byte("version two\n")), false, true},
		wcase{"upload", "fsize", 0, "empty", nil, false, lit(nil), true, false},
		wcase{"writefile", "fsize", 0, "empty", &v1, false, lit(nil), false, false},
	)
	// disk full
	cs = append(cs,
		wcase{"upload", "enospc", 256 << 10, "checkpoint", &old, false, gen(1<<20, 9), false, true},
		wcase{"upload", "enospc", 256 << 10, "tile/data/000", nil, false, gen(1<<20, 10), true, false},
		wcase{"upload", "enospc", 64 << 10, "tile/data/x001/000", nil, false, gen(200000, 11), true, true},
		wcase{"writefile", "enospc", 64 << 10, "checkpoint", &v1, false, gen(70000, 12), false, false},
		wcase{"upload", "enospc", 256 << 10, "tile/0/000", nil, false, gen(100000, 13), true, true}, // control
	)
	return cs
}

func generatedWcases(r *rand.Rand, n int) []wcase {
	var cs []wcase
	keys := []string{"checkpoint", "tile/0/000", "tile/data/x001/017", "staging/7", "a/b/c/d", "k", "é/ü", ".hidden", "tile/1/000.p/5"}
	for i := 0; i < n; i++ {
		var size int
		switch x := r.Intn(100); {
		case x < 35:
			size = 1 + r.Intn(300)
		case x < 70:
			size = 1 + r.Intn(70000)
		case x < 80:
			size = []int{4095, 4096, 4097, 16383, 16384, 16385, 32768, 65536, 65537}[r.Intn(9)]
		case x < 93:
			size = 1<<20 + r.Intn(3) - 1
		default:
			size = 3 << 20
		}
		var limit int64
		switch x := r.Intn(100); {
		case x < 15:
			limit = 0
		case x < 25:
			limit = int64(size - 1)
		case x < 32:
			limit = 1
		case x < 45:
			limit = int64(size/4096) * 4096
			if limit == int64(size) {
				limit -= 4096
			}
			if limit < 0 {
				limit = 0
			}
		case x < 88:
			limit = int64(r.Intn(size))
		default:
			limit = int64(size + r.Intn(3)) // control: no fault
		}
		c := wcase{api: "upload", fault: "fsize", limit: limit, key: keys[r.Intn(len(keys))], d: gen(size, r.Intn(256)), nb: r.Intn(2) == 0}
		if size <= 24 {
			b := make([]byte, size)
			r.Read(b)
			c.d = lit(b)
		}
		if r.Intn(4) == 0 {
			c.api = "writefile"
		} else {
			c.imm = r.Intn(100) < 55
		}
		if !c.imm && r.Intn(100) < 65 || c.imm && r.Intn(100) < 10 {
			var p dataSpec
			switch r.Intn(4) {
			case 0:
				p = lit([]byte("previous"))
			case 1:
				p = gen(size, r.Intn(256)) // same length
			case 2:
				p = gen(1+r.Intn(2*size), r.Intn(256))
			default:
				p = gen(int(limit)+1, r.Intn(256))
			}
			c.prev = &p
			c.prevImm = c.imm
		}
		if r.Intn(12) == 0 {
			c.fault = "enospc"
			c.limit = int64(16+r.Intn(48)) << 12
			c.d = gen(int(c.limit)/2+r.Intn(int(c.limit)*2), r.Intn(256))
			if c.prev != nil { // the previous object must fit
				p := gen(1+r.Intn(int(c.limit)/4), r.Intn(256))
				c.prev = &p
			}
		}
		cs = append(cs, c)
	}
	return cs
}

func wcasesFromFile(path string) []wcase {
	f, err := os.Open(path)
	if err != nil {
		panic(err)
	}
	defer f.Close()
	var cs []wcase
	seen := map[string]bool{}
	sc := bufio.NewScanner(f)
	sc.Buffer(make([]byte, 1<<20), 64<<20)
	for sc.Scan() {
		l := sc.Text()
		if !strings.HasPrefix(l, "mon_wfault_") {
			continue
		}
		fs := strings.Split(l, "|")
		if c, ok := parseWcase(fs[1:]); ok && !seen[c.fields("")] {
			seen[c.fields("")] = true
			cs = append(cs, c)
		}
	}
	return cs
}

func hasWfaultLines(path string) bool {
	b, err := os.ReadFile(path)
	return err == nil && (bytes.HasPrefix(b, []byte("mon_wfault_")) || bytes.Contains(b, []byte("\nmon_wfault_")))
}

// runs this executable once more in wfault mode as a child in a private mount namespace and
// passes its output through; false when that is not possible here
func wfaultChild(args []string, unshare bool) (ran bool) {
	exe, err := os.Executable()
	if err != nil {
		return false
	}
	out.Flush()
	cmd := exec.Command(exe, args...)
	cmd.Env = append(os.Environ(), "C13_WFAULT_CHILD=1")
	cmd.Stdout, cmd.Stderr = os.Stdout, os.Stderr
	if unshare {
		cmd.SysProcAttr = &syscall.SysProcAttr{Unshareflags: syscall.CLONE_NEWNS}
	}
	if err := cmd.Start(); err != nil {
		return false
	}
	if err := cmd.Wait(); err != nil {
		out.Flush()
		os.Stderr.WriteString("write-fault child: " + err.Error() + "\n")
		os.Exit(5)
	}
	return true
}

func wfault(seed int64, n int, file string) {
	if os.Getenv("C13_WFAULT_CHILD") == "" {
		args := []string{"-mode=wfault", "-seed=" + strconv.FormatInt(seed, 10), "-n=" + strconv.Itoa(n), "-scratch=" + scratchBase}
		if file != "" {
			args = append(args, "-file="+file)
		}
		if wfaultChild(args, true) {
			return
		}
		obs("no-private-mount-namespace", "the write-fault cases run in this process; tmpfs mounts are detached explicitly")
	}
	signal.Ignore(syscall.SIGXFSZ)
	var cs []wcase
	if file != "" {
		cs = wcasesFromFile(file)
	} else {
		cs = append(scriptedWcases(), generatedWcases(rand.New(rand.NewSource(seed^0x5713)), n)...)
	}
	fsizeOK := probeFsize()
	if !fsizeOK {
		obs("fsize-cases-skipped", "RLIMIT_FSIZE with SIGXFSZ ignored does not make write(2) fail with EFBIG here")
	}
	for _, c := range cs {
		if c.fault == "fsize" && !fsizeOK {
			continue
		}
		runWcase(c)
	}
	var ks []string
	for k := range wstat {
		ks = append(ks, k)
	}
	sort.Strings(ks)
	for _, k := range ks {
		fmt.Fprintf(out, "stat|%s|%d\n", k, wstat[k])
	}
}
