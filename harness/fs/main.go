//go:build verif

// Command fs is the C13 correspondence driver for the filesystem backend
// (internal/ctlog/local.go, internal/durable, internal/immutable).
//
//	-mode=diff    (default) differential event lists + implementation-side monitors, one line per
//	              case `op|arg|...|=>|result`; the extracted Coq model (ocaml/fs.ml) replays every
//	              line that does not start with mon_ and must print the identical line.
//	-mode=helper  runs one scripted scenario of uploads in -root (executed under strace by
//	              checks/c13.py) and prints the script; markers are written to fd 2 with write(2)
//	              so that the system-call trace can be cut into per-operation segments.
//	-mode=race    two concurrent uploads into the same new directory (also run under strace).
//	-mode=wfault  uploads while write(2) on the temporary file fails partway (RLIMIT_FSIZE, a full
//	              tmpfs); monitors only, always a process of its own: see wfault.go.
package main

import (
	"bufio"
	"bytes"
	"context"
	"encoding/hex"
	"errors"
	"flag"
	"fmt"
	"hash/adler32"
	"io/fs"
	"log/slog"
	"math/rand"
	"os"
	"os/signal"
	"path/filepath"
	"sort"
	"strings"
	"sync"
	"sync/atomic"
	"syscall"
	"time"
	"unsafe"

	"filippo.io/sunlight/internal/ctlog"
)

var out *bufio.Writer

func hx(b []byte) string {
	if len(b) == 0 {
		return "-"
	}
	return hex.EncodeToString(b)
}

func emit(op string, args string, res string) {
	fmt.Fprintf(out, "%s|%s|=>|%s\n", op, args, res)
}

// ---------------------------------------------------------------------------------------------
// data specifications: lowercase hex, "-" (empty) or g<len>.<seed> (generated, also by the model)
// ---------------------------------------------------------------------------------------------

func genData(n int, seed int) []byte {
	b := make([]byte, n)
	lo, hi := 0, 0
	for i := 0; i < n; i++ {
		b[i] = byte(seed + 7*lo + hi)
		if lo == 255 {
			lo = 0
			if hi == 250 {
				hi = 0
			} else {
				hi++
			}
		} else {
			lo++
		}
	}
	return b
}

type dataSpec struct {
	spec string
	b    []byte
}

func lit(b []byte) dataSpec { return dataSpec{hx(b), b} }
func gen(n, seed int) dataSpec {
	return dataSpec{fmt.Sprintf("g%d.%d", n, seed&0xff), genData(n, seed&0xff)}
}

// length + adler32 of the contents (of the first and last 32 KiB when longer than 64 KiB)
func digest(b []byte) string {
	s := b
	if len(b) > 65536 {
		s = append(append([]byte{}, b[:32768]...), b[len(b)-32768:]...)
	}
	return fmt.Sprintf("f%d.%d", len(b), adler32.Checksum(s))
}

// ---------------------------------------------------------------------------------------------
// environment: a scratch root R, the backend directory R/store
// ---------------------------------------------------------------------------------------------

const _FS_IOC_GETFLAGS = uintptr(0x80086601)
const _FS_IOC_SETFLAGS = uintptr(0x40086602)
const _FS_IMMUTABLE_FL = 0x00000010

func getFlags(path string) (int32, bool) {
	f, err := os.Open(path)
	if err != nil {
		return 0, false
	}
	defer f.Close()
	var flags int32
	_, _, e := syscall.Syscall(syscall.SYS_IOCTL, f.Fd(), _FS_IOC_GETFLAGS, uintptr(unsafe.Pointer(&flags)))
	return flags, e == 0
}

func clearImmutable(path string) {
	fl, ok := getFlags(path)
	if !ok || fl&_FS_IMMUTABLE_FL == 0 {
		return
	}
	f, err := os.Open(path)
	if err != nil {
		return
	}
	defer f.Close()
	fl &^= _FS_IMMUTABLE_FL
	syscall.Syscall(syscall.SYS_IOCTL, f.Fd(), _FS_IOC_SETFLAGS, uintptr(unsafe.Pointer(&fl)))
}

func removeTree(root string) {
	filepath.WalkDir(root, func(p string, d fs.DirEntry, err error) error {
		if err == nil && d.Type().IsRegular() {
			clearImmutable(p)
		}
		return nil
	})
	os.RemoveAll(root)
}

type env struct {
	root  string
	dir   string
	b     *ctlog.LocalBackend
	ctx   context.Context
	nops  int
	group int
}

var scratchBase string
var allRoots []string

func newEnv(mkdir bool) *env {
	root, err := os.MkdirTemp(scratchBase, "c13-")
	if err != nil {
		panic(err)
	}
	allRoots = append(allRoots, root)
	e := &env{root: root, dir: filepath.Join(root, "store"), ctx: context.Background()}
	if mkdir {
		if err := os.Mkdir(e.dir, 0755); err != nil {
			panic(err)
		}
	}
	b, err := ctlog.NewLocalBackend(e.ctx, e.dir, slog.New(slog.NewTextHandler(discard{}, nil)))
	if err != nil {
		panic(err)
	}
	e.b = b
	return e
}

type discard struct{}

func (discard) Write(p []byte) (int, error) { return len(p), nil }

func (e *env) close() { removeTree(e.root) }

// whether the immutable inode flag is effective for this process on this filesystem
func probeCap() bool {
	e := newEnv(true)
	defer e.close()
	if err := e.b.Upload(e.ctx, "probe", []byte("x"), &ctlog.UploadOptions{Immutable: true}); err != nil {
		return false
	}
	fl, ok := getFlags(filepath.Join(e.dir, "probe"))
	return ok && fl&_FS_IMMUTABLE_FL != 0
}

func class(err error) string {
	switch {
	case err == nil:
		return "ok"
	case strings.Contains(err.Error(), "failed to localize key"):
		return "badkey"
	case strings.Contains(err.Error(), "file contents do not match"):
		return "mismatch"
	case errors.Is(err, syscall.ENAMETOOLONG):
		return "toolong"
	case errors.Is(err, syscall.ENOTDIR):
		return "notdir"
	case errors.Is(err, syscall.EISDIR):
		return "isdir"
	case errors.Is(err, syscall.ENOTEMPTY):
		return "notempty"
	case errors.Is(err, syscall.EPERM):
		return "perm"
	case errors.Is(err, syscall.EBUSY):
		return "busy"
	case errors.Is(err, fs.ErrNotExist):
		return "notexist"
	case errors.Is(err, fs.ErrExist):
		return "exist"
	}
	return "other:" + strings.ReplaceAll(strings.ReplaceAll(err.Error(), "|", "/"), "\n", " ")
}

// the whole scratch root, lexical order: hex(relative path)=d | f<len>.<adler32>[i]
func (e *env) tree() string {
	var items []string
	filepath.WalkDir(e.root, func(p string, d fs.DirEntry, err error) error {
		if err != nil || p == e.root {
			return nil
		}
		rel, _ := filepath.Rel(e.root, p)
		if d.IsDir() {
			items = append(items, hx([]byte(rel))+"=d")
			return nil
		}
		b, err := os.ReadFile(p)
		if err != nil {
			items = append(items, hx([]byte(rel))+"=?"+class(err))
			return nil
		}
		s := hx([]byte(rel)) + "=" + digest(b)
		if fl, ok := getFlags(p); ok && fl&_FS_IMMUTABLE_FL != 0 {
			s += "i"
		}
		items = append(items, s)
		return nil
	})
	if len(items) == 0 {
		return "-"
	}
	return strings.Join(items, ",")
}

var optsCount int

func opts(imm bool) *ctlog.UploadOptions {
	if imm {
		return &ctlog.UploadOptions{Immutable: true}
	}
	optsCount++
	if optsCount%2 == 0 { // nil options and non-immutable options take the same path
		return nil
	}
	return &ctlog.UploadOptions{ContentType: "text/plain"}
}

func b2i(b bool) string {
	if b {
		return "1"
	}
	return "0"
}

var upTimeout = 30 * time.Second
var hangs int

// after three uploads that never returned the differential part stops issuing operations (each
// hung Upload is a busy loop); the monitors have reported the failing input by then
func tooManyHangs() bool { return hangs >= 3 }

func (e *env) up(key string, d dataSpec, imm bool) error {
	if tooManyHangs() {
		return errors.New("skipped")
	}
	o := opts(imm)
	ch := make(chan error, 1)
	go func() { ch <- e.b.Upload(e.ctx, key, d.b, o) }()
	var err error
	select {
	case err = <-ch:
	case <-time.After(upTimeout):
		// an Upload that does not return (the pre-fix compareFile on empty data): keep going
		upTimeout = time.Second
		hangs++
		emit("up", hx([]byte(key))+"|"+d.spec+"|"+b2i(imm), "hang|"+e.tree())
		e.nops++
		return errors.New("hang")
	}
	emit("up", hx([]byte(key))+"|"+d.spec+"|"+b2i(imm), class(err)+"|"+e.tree())
	e.nops++
	return err
}

func (e *env) fetch(key string) {
	if tooManyHangs() {
		return
	}
	b, err := e.b.Fetch(e.ctx, key)
	r := class(err)
	if err == nil {
		r = "ok:" + digest(b)
	}
	emit("fetch", hx([]byte(key)), r)
	e.nops++
}

func (e *env) discard(key string) {
	if tooManyHangs() {
		return
	}
	err := e.b.Discard(e.ctx, key)
	emit("discard", hx([]byte(key)), class(err)+"|"+e.tree())
	e.nops++
}

var capImm bool

func reset(mkdir bool) *env {
	e := newEnv(mkdir)
	emit("reset", b2i(capImm)+"|"+b2i(mkdir), "ok")
	return e
}

// ---------------------------------------------------------------------------------------------
// scripted + generated event lists
// ---------------------------------------------------------------------------------------------

var long200 = strings.Repeat("L", 200)
var long255 = strings.Repeat("M", 255)
var long256 = strings.Repeat("N", 256)

var badKeys = []string{
	"..", "../x", "a/../b", "a/..", "/abs", "/", "a//b", "a/", "/a/", "", "./a", "a/.", "a/./b",
	"a\x00b", "\x00", "a/b\x00", "\xff", "a/\xc3", "\xc0\x80", "\xed\xa0\x80", "\xf4\x90\x80\x80", "a/\xe2\x82",
	"...//", "a/b/../../..",
}

var oddKeys = []string{
	"a\\b", "\\", "a\\..\\b", "...", "..a", "a..", ".hidden", "a b", "é/ü", "日本/語", "a:b", "~", "-", "*",
	"\xf0\x9f\x98\x80", "a/" + long200, long200 + "/x", "\x01\x7f", "a/.../b", "\xef\xbf\xbd",
}

func scripted() {
	// 1. new file, overwrite, immutable rules, empty and large contents, nested directories
	e := reset(true)
	e.up("checkpoint", lit([]byte("v1\n")), false)
	e.fetch("checkpoint")
	e.up("checkpoint", lit([]byte("version two\n")), false)
	e.fetch("checkpoint")
	e.up("checkpoint", lit(nil), false)
	e.fetch("checkpoint")
	e.up("tile/0/000", gen(256, 1), true)
	e.up("tile/0/000", gen(256, 1), true)
	e.up("tile/0/000", gen(256, 2), true)
	e.up("tile/0/000", gen(255, 1), true)
	e.up("tile/0/000", gen(257, 1), true)
	e.up("tile/0/000", lit(nil), true)
	e.fetch("tile/0/000")
	e.up("tile/0/001", lit(nil), true)
	e.up("tile/0/001", lit(nil), true)
	e.up("tile/0/001", lit([]byte{0}), true)
	e.fetch("tile/0/001")
	e.up("a/b/c/d/e/f/g", lit([]byte("deep")), false)
	e.fetch("a/b/c/d/e/f/g")
	e.fetch("a/b/c")
	e.fetch("nope")
	e.fetch("a/b/c/d/e/f/g/h")
	e.discard("checkpoint")
	e.fetch("checkpoint")
	e.discard("checkpoint")
	e.discard("tile/0/000")
	e.discard("a/b/c/d/e/f/g")
	e.discard("a/b/c/d/e/f")
	e.discard("a/b")
	e.close()

	// 2. big contents around the compare chunk size, 3 MiB
	for _, n := range []int{16383, 16384, 16385, 32768, 3 << 20} {
		e = reset(true)
		k := fmt.Sprintf("big/%d", n)
		e.up(k, gen(n, n), true)
		e.up(k, gen(n, n), true)
		if n < 1<<20 {
			e.up(k, gen(n-1, n), true)
		}
		e.up(k, gen(n+1, n), true)
		e.up(k, gen(n, n+1), true)
		e.fetch(k)
		e.close()
	}
	e = reset(true)
	e.up("big/m", gen(3<<20, 9), false)
	e.up("big/m", gen(3<<20, 10), false)
	e.fetch("big/m")
	e.close()

	// 3. files versus directories, mutable over immutable and vice versa
	e = reset(true)
	e.up("x", lit([]byte("file")), false)
	e.up("x/y", lit([]byte("below a file")), false)
	e.up("x/y/z", lit([]byte("below a file")), true)
	e.fetch("x/y")
	e.up("d/e", lit([]byte("1")), false)
	e.up("d", lit([]byte("over a directory")), false)
	e.up("d", lit([]byte("over a directory")), true)
	e.up("d", lit(nil), true)
	e.fetch("d")
	e.discard("d")
	e.discard("d/e")
	e.discard("d")
	e.fetch("d")
	e.up("im", lit([]byte("frozen")), true)
	e.up("im", lit([]byte("thawed")), false)
	e.fetch("im")
	e.up("im", lit([]byte("frozen")), false)
	e.up("im", lit([]byte("thawed")), true)
	e.discard("im")
	e.up("im", lit([]byte("thawed")), true)
	e.up("mu", lit([]byte("soft")), false)
	e.up("mu", lit([]byte("soft")), true)
	e.up("mu", lit([]byte("hard")), true)
	e.up("mu", lit([]byte("hard")), false)
	e.close()

	// 4. key syntax
	for _, mk := range []bool{true, false} {
		e = reset(mk)
		for i, k := range badKeys {
			e.up(k, lit([]byte{byte(i)}), i%2 == 0)
			e.fetch(k)
			e.discard(k)
		}
		e.close()
	}
	e = reset(true)
	for i, k := range oddKeys {
		e.up(k, lit([]byte{byte(i), 1}), i%2 == 0)
		e.fetch(k)
	}
	e.up(long255, lit([]byte("name too long for the temporary file")), false)
	e.up(long255, lit([]byte("name too long for the temporary file")), true)
	e.up(long256, lit([]byte("name too long")), false)
	e.up(long256+"/x", lit([]byte("name too long")), true)
	e.fetch(long256)
	e.discard(long256)
	e.close()

	// 5. the backend directory does not exist yet (NewLocalBackend accepts that)
	e = reset(false)
	e.fetch("k")
	e.discard("k")
	e.up("p/q", lit([]byte("creates the directory")), true)
	e.fetch("p/q")
	e.close()

	// 6. the key "." (valid for filepath.Localize, rejected by localizeKey since the fix "local
	// backend must not accept the key \".\""): every operation is a bad-key error, nothing changes
	e = reset(true)
	e.up(".", lit([]byte("dot")), false)
	e.up(".", lit([]byte("dot")), true)
	e.fetch(".")
	e.discard(".")
	e.up("k", lit([]byte("1")), false)
	e.discard(".")
	e.close()
	e = reset(false)
	e.up(".", lit([]byte("dot")), false)
	e.fetch(".")
	e.up("k", lit([]byte("below")), false)
	e.up(".", lit([]byte("dot2")), true)
	e.discard(".")
	e.close()
	e = reset(false)
	e.up(".", lit([]byte("dot")), true)
	e.up(".", lit([]byte("dot")), true)
	e.up(".", lit([]byte("other")), false)
	e.close()
}

var comps = []string{"a", "b", "c", "tile", "0", "x001", ".t", "é", "a b", "k\\l"}

func genKey(r *rand.Rand, used []string) string {
	switch x := r.Intn(100); {
	case x < 45 && len(used) > 0:
		k := used[r.Intn(len(used))]
		switch r.Intn(6) {
		case 0: // a key below an existing key / above it
			return k + "/" + comps[r.Intn(len(comps))]
		case 1:
			if i := strings.LastIndexByte(k, '/'); i > 0 {
				return k[:i]
			}
		}
		return k
	case x < 85:
		n := 1 + r.Intn(4)
		var cs []string
		for i := 0; i < n; i++ {
			cs = append(cs, comps[r.Intn(len(comps))])
		}
		return strings.Join(cs, "/")
	case x < 93:
		return badKeys[r.Intn(len(badKeys))]
	case x < 97:
		return oddKeys[r.Intn(len(oddKeys))]
	default:
		// mutated: a valid key with one byte replaced or inserted
		k := []byte(comps[r.Intn(len(comps))] + "/" + comps[r.Intn(len(comps))])
		muts := []byte{0, '/', '.', '\\', 0xff, 0xc3, 0x80, ' '}
		i := r.Intn(len(k) + 1)
		if r.Intn(2) == 0 && i < len(k) {
			k[i] = muts[r.Intn(len(muts))]
		} else {
			k = append(k[:i], append([]byte{muts[r.Intn(len(muts))]}, k[i:]...)...)
		}
		return string(k)
	}
}

func genContent(r *rand.Rand, prev []dataSpec) dataSpec {
	switch x := r.Intn(100); {
	case x < 40 && len(prev) > 0:
		return prev[r.Intn(len(prev))]
	case x < 50:
		return lit(nil)
	case x < 75:
		b := make([]byte, 1+r.Intn(12))
		r.Read(b)
		return lit(b)
	case x < 85 && len(prev) > 0: // same length as / prefix of / extension of an earlier content
		p := prev[r.Intn(len(prev))].b
		q := append([]byte{}, p...)
		switch r.Intn(3) {
		case 0:
			if len(q) > 0 {
				q[r.Intn(len(q))] ^= 1
			}
		case 1:
			if len(q) > 0 {
				q = q[:len(q)-1]
			}
		default:
			q = append(q, byte(r.Intn(256)))
		}
		if len(q) > 64 {
			return gen(len(q), r.Intn(256))
		}
		return lit(q)
	case x < 97:
		sizes := []int{1, 100, 4095, 4096, 16383, 16384, 16385, 20000, 49152, 65537}
		return gen(sizes[r.Intn(len(sizes))], r.Intn(4))
	default:
		return gen(1<<20+r.Intn(3), r.Intn(4))
	}
}

func generated(r *rand.Rand, n int) {
	for n > 0 {
		e := reset(r.Intn(8) != 0)
		var used []string
		var prev []dataSpec
		steps := 6 + r.Intn(10)
		for i := 0; i < steps && n > 0; i++ {
			k := genKey(r, used)
			switch x := r.Intn(100); {
			case x < 70:
				d := genContent(r, prev)
				prev = append(prev, d)
				if e.up(k, d, r.Intn(100) < 55) == nil {
					used = append(used, k)
				}
			case x < 88:
				e.fetch(k)
			default:
				e.discard(k)
			}
			n--
		}
		e.close()
	}
}

// ---------------------------------------------------------------------------------------------
// monitors on the implementation alone
// ---------------------------------------------------------------------------------------------

func withTimeout(d time.Duration, f func() string) (string, bool) {
	ch := make(chan string, 1)
	go func() { ch <- f() }()
	select {
	case s := <-ch:
		return s, true
	case <-time.After(d):
		return "", false
	}
}

// Upload of empty immutable contents twice returns (the pre-fix compareFile spun forever)
func monEmptyTwice() bool {
	e := newEnv(true)
	res, ok := withTimeout(45*time.Second, func() string {
		im := &ctlog.UploadOptions{Immutable: true}
		if err := e.b.Upload(e.ctx, "a/empty", []byte{}, im); err != nil {
			return "FAILS:first-upload:" + class(err)
		}
		if err := e.b.Upload(e.ctx, "a/empty", []byte{}, im); err != nil {
			return "FAILS:C13-immutable-same-rejected:" + class(err)
		}
		if err := e.b.Upload(e.ctx, "a/empty", nil, im); err != nil {
			return "FAILS:C13-immutable-same-rejected(nil):" + class(err)
		}
		if err := e.b.Upload(e.ctx, "a/x", []byte("hello"), im); err != nil {
			return "FAILS:first-upload:" + class(err)
		}
		if err := e.b.Upload(e.ctx, "a/x", []byte{}, im); class(err) != "mismatch" {
			return "FAILS:C13-immutable-different-accepted:empty-over-hello:" + class(err)
		}
		if err := e.b.Upload(e.ctx, "a/empty", []byte("hello"), im); class(err) != "mismatch" {
			return "FAILS:C13-immutable-different-accepted:hello-over-empty:" + class(err)
		}
		if b, err := e.b.Fetch(e.ctx, "a/empty"); err != nil || len(b) != 0 {
			return "FAILS:C13-immutable-changed"
		}
		return "holds"
	})
	if !ok {
		// the goroutine is still spinning; do not touch its directory
		emit("mon_empty_twice", "a/empty", "FAILS:C13-empty-immutable-reupload never returned")
		return false
	}
	e.close()
	emit("mon_empty_twice", "a/empty", res)
	return true
}

// immutable rules for every content shape: same = ok, different = mismatch and unchanged
func monImmutable(r *rand.Rand, rounds int) {
	e := newEnv(true)
	defer e.close()
	im := &ctlog.UploadOptions{Immutable: true}
	sizes := []int{0, 1, 2, 255, 4096, 16383, 16384, 16385, 32768, 32769, 100000, 3 << 20}
	for i := 0; i < rounds; i++ {
		n := sizes[i%len(sizes)]
		if i >= len(sizes) {
			n = r.Intn(70000)
		}
		key := fmt.Sprintf("im/%d/%d", i, n)
		orig := genData(n, r.Intn(256))
		var variants [][]byte
		variants = append(variants, nil, []byte{}, orig[:n/2], append(append([]byte{}, orig...), 0),
			append(append([]byte{}, orig...), orig...))
		if n > 0 {
			for _, pos := range []int{0, n - 1, n / 2, r.Intn(n)} {
				v := append([]byte{}, orig...)
				v[pos] ^= 0x40
				variants = append(variants, v)
			}
			variants = append(variants, orig[:n-1], orig[1:])
		}
		res, ok := withTimeout(45*time.Second, func() string {
			if err := e.b.Upload(e.ctx, key, orig, im); err != nil {
				return "FAILS:first-upload:" + class(err)
			}
			for j := 0; j < 2; j++ {
				if err := e.b.Upload(e.ctx, key, append([]byte{}, orig...), im); err != nil {
					return "FAILS:C13-immutable-same-rejected:" + class(err)
				}
			}
			for vi, v := range variants {
				err := e.b.Upload(e.ctx, key, v, im)
				if bytes.Equal(v, orig) {
					if err != nil {
						return "FAILS:C13-immutable-same-rejected:" + class(err)
					}
					continue
				}
				if class(err) != "mismatch" {
					return fmt.Sprintf("FAILS:C13-immutable-different-accepted:variant %d len %d:%s", vi, len(v), class(err))
				}
				got, err := e.b.Fetch(e.ctx, key)
				if err != nil || !bytes.Equal(got, orig) {
					return fmt.Sprintf("FAILS:C13-immutable-changed:variant %d", vi)
				}
			}
			return "holds"
		})
		if !ok {
			res = "FAILS:C13-empty-immutable-reupload never returned"
		}
		emit("mon_immutable", fmt.Sprintf("%s|%d", key, len(variants)), res)
		if !ok {
			return
		}
	}
}

// concurrent readers during overwrites see a complete old or new object, never a partial or absent one
func monReaders(r *rand.Rand, writes int, readers int) {
	e := newEnv(true)
	defer e.close()
	var versions [][]byte
	valid := map[string]bool{}
	for i := 0; i < 6; i++ {
		n := []int{0, 1, 5000, 70000, 1 << 20, 300000}[i]
		v := genData(n, 17*i+r.Intn(16))
		versions = append(versions, v)
		valid[digest(v)] = true
	}
	keys := []string{"checkpoint", "deep/er/key"}
	for _, k := range keys {
		if err := e.b.Upload(e.ctx, k, versions[0], nil); err != nil {
			emit("mon_readers", k, "FAILS:setup:"+class(err))
			return
		}
	}
	var stop atomic.Bool
	var bad atomic.Value
	var nreads atomic.Int64
	var wg sync.WaitGroup
	for i := 0; i < readers; i++ {
		wg.Add(1)
		go func(i int) {
			defer wg.Done()
			k := keys[i%len(keys)]
			for !stop.Load() {
				b, err := e.b.Fetch(e.ctx, k)
				nreads.Add(1)
				if err != nil {
					bad.CompareAndSwap(nil, "C13-reader-error:"+k+":"+class(err))
					return
				}
				if !valid[digest(b)] {
					bad.CompareAndSwap(nil, fmt.Sprintf("C13-reader-saw-partial:%s:len %d", k, len(b)))
					return
				}
			}
		}(i)
	}
	var werr string
	var wwg sync.WaitGroup
	for w, k := range keys {
		wwg.Add(1)
		go func(w int, k string) { // one writer per key, plus a second writer on the first key
			defer wwg.Done()
			rr := rand.New(rand.NewSource(int64(w) + 99))
			for i := 0; i < writes; i++ {
				if err := e.b.Upload(e.ctx, k, versions[rr.Intn(len(versions))], nil); err != nil {
					werr = class(err)
				}
			}
		}(w, k)
	}
	wwg.Add(1)
	go func() {
		defer wwg.Done()
		for i := 0; i < writes/2; i++ {
			if err := e.b.Upload(e.ctx, keys[0], versions[i%len(versions)], nil); err != nil {
				werr = class(err)
			}
		}
	}()
	wwg.Wait()
	stop.Store(true)
	wg.Wait()
	res := "holds"
	if v := bad.Load(); v != nil {
		res = "FAILS:" + v.(string)
	} else if werr != "" {
		res = "FAILS:writer-error:" + werr
	}
	// no temporary file may be left behind
	if res == "holds" {
		for _, it := range strings.Split(e.tree(), ",") {
			name, _, _ := strings.Cut(it, "=")
			raw, _ := hex.DecodeString(name)
			if strings.HasPrefix(filepath.Base(string(raw)), ".") {
				res = "FAILS:temporary-file-left:" + string(raw)
			}
		}
	}
	emit("mon_readers", fmt.Sprintf("%d|%d|%d", writes, readers, nreads.Load()), res)
}

// for every key for which Upload succeeds the resulting file is strictly inside the directory,
// and nothing else appears in the scratch root (which holds a decoy sibling).
// The key "." is part of the key set (it must be rejected; see also mon_dot_key).
func monConfine(r *rand.Rand, n int) {
	e := newEnv(true)
	defer e.close()
	os.WriteFile(filepath.Join(e.root, "sibling"), []byte("decoy"), 0644)
	// sibling DIRECTORIES whose names begin with the backend directory's name (a prefix test on strings would let
	// them through: seed C13-7), each holding one decoy object
	prefixSibs := []string{filepath.Base(e.dir) + "-witness", filepath.Base(e.dir) + "2", filepath.Base(e.dir) + ".bak"}
	for _, d := range prefixSibs {
		os.MkdirAll(filepath.Join(e.root, d), 0755)
		os.WriteFile(filepath.Join(e.root, d, "secret"), []byte("decoy2"), 0644)
	}
	sibsIntact := func() string {
		for _, d := range prefixSibs {
			ents, _ := os.ReadDir(filepath.Join(e.root, d))
			b, _ := os.ReadFile(filepath.Join(e.root, d, "secret"))
			if len(ents) != 1 || string(b) != "decoy2" {
				return d
			}
		}
		return ""
	}
	keys := append(append([]string{}, badKeys...), oddKeys...)
	for _, d := range prefixSibs {
		keys = append(keys, "../"+d+"/secret", "../"+d+"/new", "a/../../"+d+"/secret", "../"+d)
	}
	keys = append(keys, ".", "../sibling", "store/../../sibling", "..\\sibling", "../store/x", "/etc/passwd", "a/../../sibling",
		"\x00../sibling", "a/\x00/../..", "%2e%2e/sibling", "..%2fsibling", "．．/sibling", "a/../b", "x/./y")
	for i := 0; i < n; i++ {
		keys = append(keys, genKey(r, keys))
	}
	succ := 0
	for i, k := range keys {
		data := []byte(fmt.Sprintf("confine %d", i))
		err := e.b.Upload(e.ctx, k, data, opts(i%3 == 0))
		res := "holds"
		if err == nil {
			succ++
			p := filepath.Join(e.dir, k)
			rel, rerr := filepath.Rel(e.dir, p)
			if rerr != nil || rel == "." || rel == ".." || strings.HasPrefix(rel, "../") || !strings.HasPrefix(p, e.dir+"/") {
				res = "FAILS:C13-key-escapes:" + rel
			} else if got, err := os.ReadFile(p); err != nil || !bytes.Equal(got, data) {
				// an earlier immutable object with this key keeps its contents
				if got2, err2 := e.b.Fetch(e.ctx, k); err2 != nil || (i%3 != 0 && !bytes.Equal(got2, data)) {
					res = "FAILS:C13-uploaded-object-not-at-its-path"
				}
			}
		}
		if res == "holds" {
			ents, _ := os.ReadDir(e.root)
			var names []string
			for _, x := range ents {
				names = append(names, x.Name())
			}
			sort.Strings(names)
			want := append([]string{"sibling", filepath.Base(e.dir)}, prefixSibs...)
			sort.Strings(want)
			if strings.Join(names, ",") != strings.Join(want, ",") {
				res = "FAILS:C13-key-escapes:entries outside the directory:" + hx([]byte(strings.Join(names, ",")))
			} else if b, _ := os.ReadFile(filepath.Join(e.root, "sibling")); string(b) != "decoy" {
				res = "FAILS:C13-key-escapes:sibling overwritten"
			} else if d := sibsIntact(); d != "" {
				res = "FAILS:C13-key-escapes:object of the sibling directory " + d + " written or replaced by Upload"
			}
		}
		if res == "holds" && strings.HasPrefix(k, "../") || strings.Contains(k, "/../../") {
			// reading and deleting through an escaping key
			if got, ferr := e.b.Fetch(e.ctx, k); ferr == nil {
				res = "FAILS:C13-key-escapes:Fetch returned an object from outside the directory: " + hx(got)
			}
			if derr := e.b.Discard(e.ctx, k); derr == nil {
				res = "FAILS:C13-key-escapes:Discard of a key outside the directory succeeded"
			}
			if d := sibsIntact(); d != "" && res == "holds" {
				res = "FAILS:C13-key-escapes:object of the sibling directory " + d + " removed or replaced"
			}
		}
		if res != "holds" || i%16 == 0 {
			emit("mon_confine", hx([]byte(k)), res)
		}
		if res != "holds" {
			return
		}
	}
	emit("mon_confine", fmt.Sprintf("all|%d|%d", len(keys), succ), "holds")
}

// the key "." names the backend directory itself: Upload, Fetch and Discard must refuse it, and
// nothing may be created next to, or instead of, the directory (fixed in /repo by "local backend
// must not accept the key \".\""; the old behaviour is theorem C13_prefix_confined_dot_refuted)
func monDotKey() {
	for _, mk := range []bool{true, false} {
		e := newEnv(mk)
		if mk {
			os.WriteFile(filepath.Join(e.dir, "k"), []byte("object"), 0644)
		}
		res := "holds"
		check := func(what string) {
			if res != "holds" {
				return
			}
			ents, _ := os.ReadDir(e.root)
			var names []string
			for _, x := range ents {
				names = append(names, x.Name())
			}
			want := ""
			if mk {
				want = "store"
			}
			if strings.Join(names, ",") != want {
				res = "FAILS:C13-dot-key " + what + " changed the parent of the backend directory: " + hx([]byte(strings.Join(names, ",")))
				return
			}
			if mk {
				fi, err := os.Lstat(e.dir)
				if err != nil || !fi.IsDir() {
					res = "FAILS:C13-dot-key " + what + " removed or replaced the backend directory"
				} else if b, err := os.ReadFile(filepath.Join(e.dir, "k")); err != nil || string(b) != "object" {
					res = "FAILS:C13-dot-key " + what + " damaged an object"
				}
			}
		}
		for _, imm := range []bool{false, true} {
			if err := e.b.Upload(e.ctx, ".", []byte("dot"), opts(imm)); err == nil {
				res = "FAILS:C13-dot-key Upload(\".\") accepted (immutable=" + b2i(imm) + ")"
			}
			check("Upload")
		}
		if _, err := e.b.Fetch(e.ctx, "."); err == nil {
			res = "FAILS:C13-dot-key Fetch(\".\") accepted"
		}
		check("Fetch")
		if mk {
			os.Remove(filepath.Join(e.dir, "k")) // an empty directory is what Discard used to remove
		}
		if err := e.b.Discard(e.ctx, "."); err == nil && res == "holds" {
			res = "FAILS:C13-dot-key Discard(\".\") accepted"
		}
		if mk && res == "holds" {
			if fi, err := os.Lstat(e.dir); err != nil || !fi.IsDir() {
				res = "FAILS:C13-dot-key Discard removed the backend directory"
			}
		}
		emit("mon_dot_key", "mkdir="+b2i(mk), res)
		e.close()
	}
}

// ---------------------------------------------------------------------------------------------
// helper mode (run under strace): scripted uploads, marker writes to fd 2 delimit the operations
// ---------------------------------------------------------------------------------------------

func marker(s string) { syscall.Write(2, []byte("C13MARK "+s+"\n")) }

type sop struct {
	kind  string // up | fetch | discard
	key   string
	d     dataSpec
	imm   bool
	fault bool  // up only: RLIMIT_FSIZE = limit while the Upload runs (line `upf`)
	limit int64
}

func scripts(name string) (mk bool, ops []sop) {
	u := func(k string, d dataSpec, imm bool) sop { return sop{"up", k, d, imm, false, 0} }
	uf := func(k string, d dataSpec, imm bool, limit int64) sop { return sop{"up", k, d, imm, true, limit} }
	switch name {
	case "basic":
		return true, []sop{
			u("checkpoint", lit([]byte("v1")), false),
			u("checkpoint", lit([]byte("version 2")), false),
			u("tile/8/0/x001/017", gen(300, 3), true),
			u("tile/8/0/x001/017", gen(300, 3), true),
			u("tile/8/0/x001/017", gen(300, 4), true),
			u("tile/8/0/x001/018", lit(nil), true),
			u("tile/8/0/x001/018", lit(nil), true),
			u("tile/8/0/x001/018", lit([]byte{1}), true),
			{kind: "fetch", key: "checkpoint"},
		}
	case "nodir":
		return false, []sop{
			u("issuer/abc", lit([]byte("certificate")), true),
			u("checkpoint", lit(nil), false),
			u("issuer/abc", gen(40000, 1), true),
			{kind: "discard", key: "checkpoint"},
		}
	case "big":
		return true, []sop{
			u("staging/1", gen(200000, 5), true),
			u("staging/1", gen(200000, 5), true),
			u("staging/1", gen(200000, 6), true),
			u("x", lit([]byte("file")), false),
			u("x/y", lit([]byte("under a file")), false),
			u("d/e", lit([]byte("1")), false),
			u("d", lit([]byte("over a directory")), false),
		}
	case "wfault":
		// write(2) on the temporary file fails partway (EFBIG): the trace must be the one of
		// FS/Fault.v (no fsync of the file, no rename, the temporary file unlinked, no fsync of
		// the directory), and at every crash point the key holds what it held before
		return true, []sop{
			u("checkpoint", lit([]byte("v1")), false),
			uf("checkpoint", gen(20000, 5), false, 8192),
			uf("tile/data/x001/000", gen(20000, 6), true, 8192),
			uf("tile/data/x001/000", gen(20000, 6), true, 0),
			u("tile/data/x001/000", gen(20000, 6), true),
			uf("checkpoint", lit([]byte("version two")), false, 4),
			uf("checkpoint", lit([]byte("version 2")), false, 9), // the limit is not reached
			{kind: "fetch", key: "checkpoint"},
		}
	}
	return true, nil
}

func helper(root string, script string) {
	mk, ops := scripts(script)
	for _, o := range ops {
		if o.fault {
			signal.Ignore(syscall.SIGXFSZ)
		}
	}
	e := &env{root: root, dir: filepath.Join(root, "store"), ctx: context.Background()}
	if mk {
		os.Mkdir(e.dir, 0755)
	}
	b, err := ctlog.NewLocalBackend(e.ctx, e.dir, slog.New(slog.NewTextHandler(discard{}, nil)))
	if err != nil {
		panic(err)
	}
	e.b = b
	emit("reset", b2i(capImm)+"|"+b2i(mk), "ok")
	for i, o := range ops {
		marker(fmt.Sprintf("begin %d", i))
		wd := time.AfterFunc(60*time.Second, func() {
			marker(fmt.Sprintf("hang %d", i))
			out.Flush()
			os.Exit(3)
		})
		var err error
		switch o.kind {
		case "up":
			var op *ctlog.UploadOptions
			if o.imm {
				op = &ctlog.UploadOptions{Immutable: true}
			}
			if o.fault {
				if lerr := withFsize(o.limit, func() { err = e.b.Upload(e.ctx, o.key, o.d.b, op) }); lerr != nil {
					panic(lerr)
				}
			} else {
				err = e.b.Upload(e.ctx, o.key, o.d.b, op)
			}
		case "fetch":
			_, err = e.b.Fetch(e.ctx, o.key)
		case "discard":
			err = e.b.Discard(e.ctx, o.key)
		}
		wd.Stop()
		marker(fmt.Sprintf("end %d", i))
		switch o.kind {
		case "up":
			if o.fault {
				emit("upf", hx([]byte(o.key))+"|"+o.d.spec+"|"+b2i(o.imm)+"|"+fmt.Sprint(o.limit), wclass(err)+"|"+e.tree())
			} else {
				emit("up", hx([]byte(o.key))+"|"+o.d.spec+"|"+b2i(o.imm), class(err)+"|"+e.tree())
			}
		case "fetch":
			emit("fetch", hx([]byte(o.key)), class(err))
		case "discard":
			emit("discard", hx([]byte(o.key)), class(err)+"|"+e.tree())
		}
	}
}

// race mode: the candidate schedule of DESIGN.md 0.3. "standin" = the harness itself performs
// writer A's system calls up to the point where A is suspended (mkdir of the new directory, no
// fsync yet), then the real Upload of writer B runs to completion.
func race(root string, variant string) {
	e := &env{root: root, dir: filepath.Join(root, "store"), ctx: context.Background()}
	os.Mkdir(e.dir, 0755)
	b, err := ctlog.NewLocalBackend(e.ctx, e.dir, slog.New(slog.NewTextHandler(discard{}, nil)))
	if err != nil {
		panic(err)
	}
	e.b = b
	emit("reset", b2i(capImm)+"|1", "ok")
	switch variant {
	case "standin":
		marker("begin 0")
		// writer A = Upload("new/a", ...) suspended inside durable.Mkdir after mkdirat
		pf, _ := os.OpenFile(e.dir, os.O_RDONLY|syscall.O_DIRECTORY, 0)
		os.Mkdir(filepath.Join(e.dir, "new"), 0755)
		marker("end 0")
		marker("begin 1")
		err := e.b.Upload(e.ctx, "new/b", []byte("upload B"), &ctlog.UploadOptions{Immutable: true})
		marker("end 1")
		emit("up", hx([]byte("new/b"))+"|"+hx([]byte("upload B"))+"|1", class(err)+"|"+e.tree())
		pf.Close()
	case "real":
		// two real concurrent uploads; B starts as soon as the directory is visible
		var wg sync.WaitGroup
		wg.Add(2)
		go func() {
			defer wg.Done()
			e.b.Upload(e.ctx, "new/a", []byte("upload A"), &ctlog.UploadOptions{Immutable: true})
			marker("A returned")
		}()
		go func() {
			defer wg.Done()
			for {
				if _, err := os.Lstat(filepath.Join(e.dir, "new")); err == nil {
					break
				}
			}
			e.b.Upload(e.ctx, "new/b", []byte("upload B"), &ctlog.UploadOptions{Immutable: true})
			marker("B returned")
		}()
		wg.Wait()
	}
}

// replay mode: re-executes differential lines (reset/up/fetch/discard) of a replay file on the
// real implementation and prints the lines with the results it gets now
func parseData(spec string) dataSpec {
	if spec == "-" || spec == "" {
		return dataSpec{"-", nil}
	}
	if spec[0] == 'g' {
		var n, sd int
		fmt.Sscanf(spec, "g%d.%d", &n, &sd)
		return gen(n, sd)
	}
	b, _ := hex.DecodeString(spec)
	return lit(b)
}

func unhx(s string) []byte {
	if s == "-" {
		return nil
	}
	b, _ := hex.DecodeString(s)
	return b
}

func replayFile(path string) {
	f, err := os.Open(path)
	if err != nil {
		panic(err)
	}
	defer f.Close()
	var e *env
	sc := bufio.NewScanner(f)
	sc.Buffer(make([]byte, 1<<20), 64<<20)
	for sc.Scan() {
		fs := strings.Split(sc.Text(), "|")
		if len(fs) < 2 {
			continue
		}
		if fs[0] != "reset" && e == nil {
			e = reset(true)
		}
		switch fs[0] {
		case "reset":
			if e != nil {
				e.close()
			}
			e = reset(len(fs) > 2 && fs[2] == "1")
		case "up":
			if len(fs) >= 4 {
				e.up(string(unhx(fs[1])), parseData(fs[2]), fs[3] == "1")
			}
		case "fetch":
			e.fetch(string(unhx(fs[1])))
		case "discard":
			e.discard(string(unhx(fs[1])))
		}
	}
	if e != nil {
		e.close()
	}
}

func main() {
	seed := flag.Int64("seed", 1, "")
	n := flag.Int("n", 400, "number of generated operations")
	mode := flag.String("mode", "diff", "")
	root := flag.String("root", "", "scratch root (helper/race modes)")
	script := flag.String("script", "basic", "")
	scratch := flag.String("scratch", "", "directory below which scratch roots are created")
	big := flag.Bool("big", false, "")
	file := flag.String("file", "", "replay file")
	flag.Parse()
	scratchBase = *scratch
	out = bufio.NewWriterSize(os.Stdout, 1<<20)
	defer out.Flush()
	defer func() {
		for _, r := range allRoots {
			removeTree(r)
		}
	}()
	capImm = probeCap()
	switch *mode {
	case "helper":
		helper(*root, *script)
		return
	case "race":
		race(*root, *script)
		return
	case "replay":
		replayFile(*file)
		if hasWfaultLines(*file) {
			wfault(*seed, 0, *file)
		}
		return
	case "wfault":
		wfault(*seed, *n, *file)
		return
	}
	r := rand.New(rand.NewSource(*seed))
	if !monEmptyTwice() {
		upTimeout = time.Second
	}
	scripted()
	generated(r, *n)
	rounds := 16
	writes := 150
	if *big {
		rounds, writes = 60, 1500
	}
	monImmutable(r, rounds)
	monReaders(r, writes, 8)
	monConfine(r, 200)
	monDotKey()
}
