//go:build verif

package main

// transports.go — the same SCT cases through the OTHER construction paths of sunlight.NewClient
// (file://, gzip+file://, http with a permanent cache): C12 speaks about the client, not about one
// transport (seed C12-7: the log-ID comparison was lost on the file-backed path only).

import (
	"bytes"
	"compress/gzip"
	"context"
	"crypto/ecdsa"
	"fmt"
	"net/http"
	"os"
	"path/filepath"
	"strings"
	"time"

	"filippo.io/sunlight"
)

type altClient struct {
	label string
	c     *sunlight.Client
}

// writeTree renders what the tampering server would serve as a directory
func writeTree(dir string, rt *tamperRT, gz bool) {
	put := func(p string, d []byte) {
		if rt.miss[p] {
			return
		}
		if o, ok := rt.ovr[p]; ok {
			d = o
		}
		if gz && strings.HasPrefix(p, "tile/data/") {
			var b bytes.Buffer
			w := gzip.NewWriter(&b)
			w.Write(d)
			w.Close()
			d = b.Bytes()
		}
		f := filepath.Join(dir, filepath.FromSlash(p))
		if err := os.MkdirAll(filepath.Dir(f), 0o755); err != nil {
			panic(err)
		}
		if err := os.WriteFile(f, d, 0o644); err != nil {
			panic(err)
		}
	}
	for p, d := range rt.base {
		put(p, d)
	}
	for p, d := range rt.ovr {
		if _, ok := rt.base[p]; !ok {
			put(p, d)
		}
	}
}

func (h *harness) altClients(pub *ecdsa.PublicKey, rt *tamperRT, allow bool) ([]altClient, func()) {
	root, err := os.MkdirTemp("", "verif-client-alt-")
	if err != nil {
		panic(err)
	}
	var out []altClient
	for _, schema := range []string{"file", "gzip+file"} {
		dir := filepath.Join(root, strings.ReplaceAll(schema, "+", "_"))
		writeTree(dir, rt, schema == "gzip+file")
		c, err := sunlight.NewClient(&sunlight.ClientConfig{MonitoringPrefix: schema + "://" + dir, PublicKey: pub,
			AllowRFC6962ArchivalLeafs: allow})
		if err != nil {
			panic(err)
		}
		out = append(out, altClient{schema, c})
	}
	if err := os.MkdirAll(filepath.Join(root, "cache"), 0o755); err != nil {
		panic(err)
	}
	c, err := sunlight.NewClient(&sunlight.ClientConfig{
		MonitoringPrefix: "http://log.invalid/", PublicKey: pub, AllowRFC6962ArchivalLeafs: allow,
		UserAgent: "verif-harness (+https://example.com)", Cache: filepath.Join(root, "cache"),
		HTTPClient: &http.Client{Transport: rt}, Timeout: time.Minute})
	if err != nil {
		panic(err)
	}
	out = append(out, altClient{"http+cache", c})
	return out, func() { os.RemoveAll(root) }
}

// runInclAlt: a confirmed SCT must be authentic whatever transport the client was built on
func (h *harness) runInclAlt(th *treeHead, allow bool, sc sctCase) {
	lg := th.lg
	rt := h.server(lg, sc.ovr)
	alts, cleanup := h.altClients(&lg.key.PublicKey, rt, allow)
	defer cleanup()
	for _, a := range alts {
		mon, res := "holds", ""
		func() {
			defer func() {
				if r := recover(); r != nil {
					res = fmt.Sprintf("panic(%v)", r)
				}
			}()
			e, p, err := a.c.CheckInclusion(context.Background(), th.tree, sc.sct)
			if err != nil {
				res = "err"
				return
			}
			res = "confirmed"
			mon = h.monIncl(th, sc.sct, e, p)
		}()
		h.emit("mon_incl_transport|%s|%s|%s|%s|%x|=>|%s", th.tid, a.label, sc.label, ovrString(sc.ovr), sc.sct, h.tag(sc.ovr, mon))
		h.stats["incl_transport_"+a.label+"_"+strings.SplitN(res, "(", 2)[0]]++
	}
}
