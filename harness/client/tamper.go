//go:build verif

package main

import (
	"encoding/binary"
	"encoding/hex"
	"fmt"
	"strings"
)

// A tampered object is described as a concatenation of segments: literal bytes or a slice of a
// fixture object. The description (not the bytes) goes on the harness line; the model driver
// rebuilds the same bytes from the fixture objects it was given.
type seg struct {
	lit  []byte // literal, when sid == ""
	sid  string
	path string
	a, b int // [a,b) of the object; b == -1: to the end
}

type override struct {
	path    string
	missing bool
	segs    []seg
}

func lit(b []byte) seg                   { return seg{lit: b} }
func obj(sid, path string, a, b int) seg { return seg{sid: sid, path: path, a: a, b: b} }

func (s seg) String() string {
	if s.sid == "" {
		return "h" + hex.EncodeToString(s.lit)
	}
	return fmt.Sprintf("o%s,%s,%d,%d", s.sid, s.path, s.a, s.b)
}

func (o override) String() string {
	if o.missing {
		return o.path + "=!"
	}
	var p []string
	for _, s := range o.segs {
		p = append(p, s.String())
	}
	if len(p) == 0 {
		p = []string{"h"}
	}
	return o.path + "=" + strings.Join(p, "+")
}

func ovrString(os []override) string {
	if len(os) == 0 {
		return "-"
	}
	var p []string
	for _, o := range os {
		p = append(p, o.String())
	}
	return strings.Join(p, ";")
}

func (h *harness) materialise(segs []seg) []byte {
	var out []byte
	for _, s := range segs {
		if s.sid == "" {
			out = append(out, s.lit...)
			continue
		}
		d, ok := h.stores[s.sid][s.path]
		if !ok {
			panic("verif: segment refers to unknown object " + s.sid + ":" + s.path)
		}
		b := s.b
		if b < 0 {
			b = len(d)
		}
		out = append(out, d[s.a:b]...)
	}
	return out
}

// ---- layout of a data tile (independent of sunlight's parser) ---------------------------------

type leafLayout struct {
	start, end       int
	precert          bool
	ikh              int // offset of the 32-byte issuer key hash, -1 if none
	cert, certEnd    int // certificate / TBS bytes
	certLen          int // offset of the 3-byte length
	ext, extEnd      int // extensions bytes
	pre, preEnd      int // PreCertificate bytes (-1 if none)
	preLen           int
	fps, fpsEnd      int // fingerprints bytes
	fpsLen           int
}

func layoutTile(d []byte) ([]leafLayout, error) {
	var out []leafLayout
	p := 0
	need := func(n int) error {
		if p+n > len(d) {
			return fmt.Errorf("short tile at %d", p)
		}
		return nil
	}
	for p < len(d) {
		l := leafLayout{start: p, ikh: -1, pre: -1, preEnd: -1, preLen: -1}
		if err := need(10); err != nil {
			return nil, err
		}
		typ := binary.BigEndian.Uint16(d[p+8:])
		p += 10
		if typ == 1 {
			l.precert = true
			if err := need(32); err != nil {
				return nil, err
			}
			l.ikh = p
			p += 32
		} else if typ != 0 {
			return nil, fmt.Errorf("unknown entry type %d", typ)
		}
		if err := need(3); err != nil {
			return nil, err
		}
		l.certLen = p
		n := int(d[p])<<16 | int(d[p+1])<<8 | int(d[p+2])
		p += 3
		if err := need(n); err != nil {
			return nil, err
		}
		l.cert, l.certEnd = p, p+n
		p += n
		if err := need(2); err != nil {
			return nil, err
		}
		n = int(binary.BigEndian.Uint16(d[p:]))
		p += 2
		if err := need(n); err != nil {
			return nil, err
		}
		l.ext, l.extEnd = p, p+n
		p += n
		if l.precert {
			if err := need(3); err != nil {
				return nil, err
			}
			l.preLen = p
			n = int(d[p])<<16 | int(d[p+1])<<8 | int(d[p+2])
			p += 3
			if err := need(n); err != nil {
				return nil, err
			}
			l.pre, l.preEnd = p, p+n
			p += n
		}
		if err := need(2); err != nil {
			return nil, err
		}
		l.fpsLen = p
		n = int(binary.BigEndian.Uint16(d[p:]))
		p += 2
		if err := need(n); err != nil {
			return nil, err
		}
		l.fps, l.fpsEnd = p, p+n
		p += n
		l.end = p
		out = append(out, l)
	}
	return out, nil
}

// ---- generic byte-level tamperings of one object ------------------------------------------------

func flipAt(sid, path string, off int, mask byte, orig []byte) []seg {
	return []seg{obj(sid, path, 0, off), lit([]byte{orig[off] ^ mask}), obj(sid, path, off+1, -1)}
}

func truncAt(sid, path string, n int) []seg { return []seg{obj(sid, path, 0, n)} }

func whole(sid, path string) []seg { return []seg{obj(sid, path, 0, -1)} }

// swap the byte ranges [a,b) and [c,d) (a < b <= c < d) of an object
func swapRanges(sid, path string, a, b, c, d int) []seg {
	return []seg{obj(sid, path, 0, a), obj(sid, path, c, d), obj(sid, path, b, c), obj(sid, path, a, b), obj(sid, path, d, -1)}
}

func u24(n int) []byte { return []byte{byte(n >> 16), byte(n >> 8), byte(n)} }
func u16(n int) []byte { return []byte{byte(n >> 8), byte(n)} }
