//go:build verif

package main

// Checkpoints of a log whose key is RSA (RFC 6962 allows RSA-PKCS1v15 with SHA-256, signature
// algorithm 1). Monitors only: these cases are not replayed by the Coq model (its keys are the two
// ECDSA fixture keys); what is judged is C12's clause "a checkpoint is returned only if signed by the
// configured key", with the signature verified here independently (crypto/rsa).

import (
	"context"
	"crypto"
	"crypto/rand"
	"crypto/rsa"
	"crypto/x509"
	"encoding/base64"
	"encoding/binary"
	"fmt"
	"net/http"
	"strings"
	"time"

	"filippo.io/sunlight"
	"filippo.io/torchwood"
	"golang.org/x/mod/sumdb/tlog"
)

func (h *harness) rsaCkptCases() {
	key, err := rsa.GenerateKey(rand.Reader, 2048)
	if err != nil {
		panic(err)
	}
	other, err := rsa.GenerateKey(rand.Reader, 2048)
	if err != nil {
		panic(err)
	}
	spki, err := x509.MarshalPKIXPublicKey(&key.PublicKey)
	if err != nil {
		panic(err)
	}
	name := "example.com/rsa-log"
	kh := rfcKeyHash(name, spki)
	last := h.A.heads[len(h.A.heads)-1]
	n, root, ts := last.tree.N, [32]byte(last.tree.Hash), uint64(last.time)
	sign := func(k *rsa.PrivateKey, n int64, ts uint64, root [32]byte) []byte {
		sig, err := rsa.SignPKCS1v15(rand.Reader, k, crypto.SHA256, sthDigest(n, ts, root))
		if err != nil {
			panic(err)
		}
		return sig
	}
	text := func(n int64, root [32]byte) string {
		return torchwood.Checkpoint{Origin: name, Tree: tlog.Tree{N: n, Hash: root}}.String()
	}
	run := func(label string, mustOpen bool, t string, lines ...string) {
		served := []byte(t + "\n" + strings.Join(lines, ""))
		rt := &tamperRT{base: map[string][]byte{"checkpoint": served}, ovr: map[string][]byte{}, miss: map[string]bool{}}
		c, err := sunlight.NewClient(&sunlight.ClientConfig{
			MonitoringPrefix: "http://log.invalid/", PublicKey: &key.PublicKey,
			UserAgent:  "verif-harness (+https://example.com)",
			HTTPClient: &http.Client{Transport: rt}, Timeout: time.Minute})
		if err != nil {
			panic(err)
		}
		mon := "holds"
		func() {
			defer func() {
				if r := recover(); r != nil {
					mon = "holds"
				}
			}()
			cp, _, err := c.Checkpoint(context.Background())
			if err != nil {
				if mustOpen {
					// not a clause of C12 (which only limits what is RETURNED); recorded as a statistic
					h.stats["rsa_honest_refused"]++
				}
				return
			}
			mon = monCkptRSA(&key.PublicKey, name, kh, served, cp)
		}()
		h.emit("mon_ckpt_rsa|%s|%x|=>|%s", label, served, mon)
		h.stats["ckpt_rsa"]++
	}
	line := func(sigalg byte, sig []byte) string { return noteLine(name, kh, rfcBlob(ts, 4, sigalg, sig)) }
	tx := text(n, root)
	run("rsa-honest", true, tx, line(1, sign(key, n, ts, root)))
	garbage := make([]byte, 256)
	h.r.Read(garbage)
	run("rsa-garbage-signature", false, tx, line(1, garbage))
	run("rsa-signed-by-another-rsa-key", false, tx, line(1, sign(other, n, ts, root)))
	r2 := root
	r2[h.r.Intn(32)] ^= 1
	run("rsa-genuine-signature-on-another-root", false, text(n, r2), line(1, sign(key, n, ts, root)))
	run("rsa-genuine-signature-on-another-size", false, text(n+1, root), line(1, sign(key, n, ts, root)))
	run("rsa-genuine-signature-other-timestamp", false, tx, noteLine(name, kh, rfcBlob(ts+1, 4, 1, sign(key, n, ts, root))))
	run("rsa-ecdsa-signature-labelled-rsa", false, tx, line(1, signSTH(h.A.key, n, ts, root)))
	run("rsa-signature-labelled-ecdsa", false, tx, line(3, sign(key, n, ts, root)))
	run("rsa-empty-signature", false, tx, line(1, nil))
}

func monCkptRSA(pub *rsa.PublicKey, name string, want uint32, served []byte, cp torchwood.Checkpoint) string {
	if cp.Extension != "" {
		return "FAILS:returned a checkpoint carrying extension lines"
	}
	i := strings.LastIndex(string(served), "\n\n")
	if i < 0 {
		return "FAILS:returned a checkpoint from a note without signature block"
	}
	for _, line := range strings.Split(strings.TrimSuffix(string(served[i+2:]), "\n"), "\n") {
		line = strings.TrimPrefix(line, "— ")
		nm, b64, _ := strings.Cut(line, " ")
		raw, err := base64.StdEncoding.DecodeString(b64)
		if err != nil || len(raw) < 16 || nm != cp.Origin || nm != name || binary.BigEndian.Uint32(raw) != want {
			continue
		}
		blob := raw[4:]
		ts := binary.BigEndian.Uint64(blob)
		l := int(binary.BigEndian.Uint16(blob[10:]))
		if 12+l != len(blob) || blob[8] != 4 || blob[9] != 1 {
			continue
		}
		if rsa.VerifyPKCS1v15(pub, crypto.SHA256, sthDigest(cp.N, ts, cp.Hash), blob[12:]) == nil {
			return "holds"
		}
	}
	return fmt.Sprintf("FAILS:returned checkpoint (size %d, root %x) carries no RSA signature by the configured key over that tree head", cp.N, cp.Hash[:6])
}
