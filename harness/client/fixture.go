//go:build verif

package main

import (
	"context"
	"crypto/ecdsa"
	"crypto/elliptic"
	"crypto/rand"
	"crypto/sha256"
	"crypto/x509"
	"fmt"
	"io"
	"log/slog"
	mrand "math/rand"
	"path/filepath"
	"sort"
	"time"

	"filippo.io/mldsa"
	"filippo.io/sunlight"
	"filippo.io/sunlight/internal/ctlog"
	"golang.org/x/mod/sumdb/note"
	"golang.org/x/mod/sumdb/tlog"
)

// a tree head the real sequencer signed and published for a fixture log
type treeHead struct {
	tid        string
	lg         *fixtureLog
	tree       tlog.Tree
	checkpoint []byte // the published signed note
	time       int64  // timestamp inside the RFC 6962 signature
}

// a REAL log: ctlog.CreateLog / LoadLog / addLeafToPool / sequence over in-memory backends
type fixtureLog struct {
	sid    string
	name   string
	key    *ecdsa.PrivateKey
	keyID  int
	spki   []byte
	logID  [32]byte
	be     *memBackend
	lock   *memLock
	cfg    *ctlog.Config
	log    *ctlog.Log
	r      *mrand.Rand
	truth  []*sunlight.LogEntry // ground truth: what the submitters were told (index, timestamp) + what they sent
	heads  []*treeHead
	store  map[string][]byte // served (content-decoded) objects of the final state
	issuer [][]byte
	nPending int
}

var fakeClock int64 = 1_700_000_000_000

func quiet() *slog.Logger { return slog.New(slog.NewTextHandler(io.Discard, nil)) }

func newFixtureLog(sid, name string, keyID int, seed int64, dir string) (*fixtureLog, error) {
	fl := &fixtureLog{sid: sid, name: name, keyID: keyID, be: newMemBackend(),
		lock: &memLock{cp: map[[32]byte][]byte{}}, r: mrand.New(mrand.NewSource(seed))}
	var err error
	if fl.key, err = ecdsa.GenerateKey(elliptic.P256(), rand.Reader); err != nil {
		return nil, err
	}
	wkey, err := mldsa.GenerateKey(mldsa.MLDSA44())
	if err != nil {
		return nil, err
	}
	if fl.spki, err = x509.MarshalPKIXPublicKey(fl.key.Public()); err != nil {
		return nil, err
	}
	fl.logID = sha256.Sum256(fl.spki)
	for i := 0; i < 5; i++ {
		b := make([]byte, 24+fl.r.Intn(16))
		fl.r.Read(b)
		fl.issuer = append(fl.issuer, b)
	}
	fl.cfg = &ctlog.Config{Name: name, Key: fl.key, WitnessKey: wkey, PoolSize: 0,
		Cache: filepath.Join(dir, "cache-"+sid+".db"), Backend: fl.be, Lock: fl.lock, Log: quiet(),
		NotAfterStart: time.Date(2024, 1, 1, 0, 0, 0, 0, time.UTC),
		NotAfterLimit: time.Date(2099, 1, 1, 0, 0, 0, 0, time.UTC)}
	ctx := context.Background()
	if err := ctlog.CreateLog(ctx, fl.cfg); err != nil {
		return nil, fmt.Errorf("CreateLog: %w", err)
	}
	if fl.log, err = ctlog.LoadLog(ctx, fl.cfg); err != nil {
		return nil, fmt.Errorf("LoadLog: %w", err)
	}
	return fl, nil
}

func (fl *fixtureLog) newPending() *ctlog.PendingLogEntry {
	e := &ctlog.PendingLogEntry{}
	// unique (the sequencer de-duplicates by certificate): a counter followed by random bytes
	fl.nPending++
	e.Certificate = make([]byte, 4+fl.r.Intn(7))
	fl.r.Read(e.Certificate)
	e.Certificate[0], e.Certificate[1], e.Certificate[2] = byte(fl.nPending>>16), byte(fl.nPending>>8), byte(fl.nPending)
	if fl.r.Intn(10) < 3 {
		e.IsPrecert = true
		fl.r.Read(e.IssuerKeyHash[:])
		e.PreCertificate = make([]byte, 2+fl.r.Intn(7))
		fl.r.Read(e.PreCertificate)
	}
	k := 0
	if x := fl.r.Intn(20); x < 3 {
		k = 1
	} else if x == 3 {
		k = 2
	}
	for ; k > 0; k-- {
		e.Issuers = append(e.Issuers, fl.issuer[fl.r.Intn(len(fl.issuer))])
	}
	return e
}

// grow submits k entries and runs one sequencing round of the real sequencer
func (fl *fixtureLog) grow(k int) error {
	ctx := context.Background()
	var waits []ctlog.VerifWaitEntryFunc
	for i := 0; i < k; i++ {
		f, src := fl.log.VerifAddLeafToPool(ctx, fl.newPending(), false)
		if src != "sequencer" {
			return fmt.Errorf("entry not pooled: %s", src)
		}
		waits = append(waits, f)
	}
	if err := fl.log.VerifSequence(ctx); err != nil {
		return fmt.Errorf("sequence: %w", err)
	}
	for _, f := range waits {
		e, err := f(ctx)
		if err != nil {
			return fmt.Errorf("submitter: %w", err)
		}
		if e.LeafIndex != int64(len(fl.truth)) {
			return fmt.Errorf("submitter got index %d, expected %d", e.LeafIndex, len(fl.truth))
		}
		fl.truth = append(fl.truth, e)
	}
	return nil
}

// growTo grows the log in random rounds up to size n and records the tree head published there
func (fl *fixtureLog) growTo(n int, maxStep int, tid string) error {
	for len(fl.truth) < n {
		k := 1 + fl.r.Intn(maxStep)
		if len(fl.truth)+k > n {
			k = n - len(fl.truth)
		}
		if err := fl.grow(k); err != nil {
			return err
		}
	}
	cp, ok := fl.be.served("checkpoint")
	if !ok {
		return fmt.Errorf("no published checkpoint")
	}
	v, err := sunlight.NewRFC6962Verifier(fl.name, fl.key.Public())
	if err != nil {
		return err
	}
	nt, err := note.Open(cp, note.VerifierList(v))
	if err != nil {
		return fmt.Errorf("published checkpoint does not verify: %w", err)
	}
	c, err := sunlight.ParseCheckpoint(nt.Text)
	if err != nil {
		return err
	}
	if c.N != int64(n) {
		return fmt.Errorf("published checkpoint has size %d, expected %d", c.N, n)
	}
	ts, err := sunlight.RFC6962SignatureTimestamp(nt.Sigs[0])
	if err != nil {
		return err
	}
	fl.heads = append(fl.heads, &treeHead{tid: tid, lg: fl, tree: c.Tree, checkpoint: cp, time: ts})
	return nil
}

// snapshot content-decodes every object of the backend (what the honest server serves)
func (fl *fixtureLog) snapshot() {
	fl.store = map[string][]byte{}
	for _, k := range fl.be.keys() {
		if d, ok := fl.be.served(k); ok {
			fl.store[k] = d
		}
	}
}

func (fl *fixtureLog) sortedKeys() []string {
	var ks []string
	for k := range fl.store {
		ks = append(ks, k)
	}
	sort.Strings(ks)
	return ks
}

func init() {
	ctlog.VerifSetTimeNowUnixMilli(func() int64 {
		fakeClock += 997
		return fakeClock
	})
}
