//go:build verif

package main

import (
	"context"
	"crypto/ecdsa"
	"crypto/rand"
	"crypto/sha256"
	"encoding/base64"
	"encoding/binary"
	"fmt"
	"sort"
	"strings"

	"filippo.io/sunlight"
	"filippo.io/torchwood"
	ct "github.com/google/certificate-transparency-go"
	"github.com/google/certificate-transparency-go/tls"
	"golang.org/x/mod/sumdb/tlog"
)

type tcase struct {
	label string
	ovr   []override
	leaf  int64 // the entry the tampering is aimed at (-1: none in particular)
}

func dataPath(n int64, w int) string {
	return sunlight.TilePath(tlog.Tile{H: 8, L: -1, N: n, W: w})
}

func hashPath(l int, n int64, w int) string {
	return sunlight.TilePath(tlog.Tile{H: 8, L: l, N: n, W: w})
}

// data tiles a client with this tree head asks for
func dataTilesOf(n int64) (ts [][2]int64) {
	for s := int64(0); s < n; s += 256 {
		w := int64(256)
		if n-s < w {
			w = n - s
		}
		ts = append(ts, [2]int64{s / 256, w})
	}
	return
}

func starts(n int64) []int64 {
	set := map[int64]bool{}
	for _, b := range []int64{0, 256, 512, n, n / 256 * 256} {
		for d := int64(-2); d <= 2; d++ {
			set[b+d] = true
		}
	}
	for _, s := range []int64{-255, -1, n + 300, 100} {
		set[s] = true
	}
	var l []int64
	for s := range set {
		if s > -256 {
			l = append(l, s)
		}
	}
	sort.Slice(l, func(i, j int) bool { return l[i] < l[j] })
	return l
}

// ---- tamperings of one data tile ------------------------------------------------------------------------

func (h *harness) dataTamperings(th *treeHead, tn int64, tw int) []tcase {
	lg := th.lg
	p := dataPath(tn, tw)
	d := lg.store[p]
	lay, err := layoutTile(d)
	if err != nil || len(lay) != tw {
		panic(fmt.Sprintf("verif: fixture tile %s does not parse: %v (%d leaves)", p, err, len(lay)))
	}
	base := tn * 256
	var cs []tcase
	add := func(label string, leaf int64, segs []seg) {
		cs = append(cs, tcase{label, []override{{path: p, segs: segs}}, leaf})
	}
	pick := func(f func(l leafLayout) bool) int {
		var c []int
		for i, l := range lay {
			if f(l) {
				c = append(c, i)
			}
		}
		if len(c) == 0 {
			return -1
		}
		return c[h.r.Intn(len(c))]
	}
	k := h.r.Intn(len(lay))
	if !h.thor && k > 40 && h.r.Intn(4) != 0 {
		k = h.r.Intn(40) // quick tier: mostly near the start of the tile (Entry parses every leaf before k)
	}
	l := lay[k]
	gi := base + int64(k)
	bit := func() byte { return 1 << uint(h.r.Intn(8)) }

	// covered fields
	add("cov-timestamp", gi, flipAt("A", p, l.start+7, bit(), d))
	add("cov-timestamp-msb", gi, flipAt("A", p, l.start, 0x80, d))
	add("cov-entrytype", gi, flipAt("A", p, l.start+9, 1, d))
	add("cov-certificate", gi, flipAt("A", p, l.cert+h.r.Intn(l.certEnd-l.cert), bit(), d))
	add("cov-leafindex", gi, flipAt("A", p, l.extEnd-1, bit(), d))
	add("cov-certlen", gi, flipAt("A", p, l.certLen+2, bit(), d))
	add("cov-extlen", gi, flipAt("A", p, l.ext-1, bit(), d))
	if kp := pick(func(l leafLayout) bool { return l.precert }); kp >= 0 {
		lp := lay[kp]
		add("cov-issuerkeyhash", base+int64(kp), flipAt("A", p, lp.ikh+h.r.Intn(32), bit(), d))
		// uncovered: PreCertificate
		add("unc-precert-bit", base+int64(kp), flipAt("A", p, lp.pre+h.r.Intn(lp.preEnd-lp.pre), bit(), d))
		np := []byte("substituted precertificate of another length")
		add("unc-precert-replace", base+int64(kp), []seg{obj("A", p, 0, lp.preLen), lit(u24(len(np))), lit(np), obj("A", p, lp.preEnd, -1)})
		add("unc-precert-empty", base+int64(kp), []seg{obj("A", p, 0, lp.preLen), lit(u24(0)), obj("A", p, lp.preEnd, -1)})
		add("unc-precertlen", base+int64(kp), flipAt("A", p, lp.preLen+2, bit(), d))
	}
	if kf := pick(func(l leafLayout) bool { return l.fpsEnd > l.fps }); kf >= 0 {
		lf := lay[kf]
		add("unc-fingerprint-bit", base+int64(kf), flipAt("A", p, lf.fps+h.r.Intn(lf.fpsEnd-lf.fps), bit(), d))
		add("unc-fingerprints-drop", base+int64(kf), []seg{obj("A", p, 0, lf.fpsLen), lit(u16(0)), obj("A", p, lf.fpsEnd, -1)})
		add("unc-fingerprintslen", base+int64(kf), flipAt("A", p, lf.fpsLen+1, bit(), d))
	}
	fp := make([]byte, 32)
	h.r.Read(fp)
	add("unc-fingerprints-add", gi, []seg{obj("A", p, 0, l.fpsLen), lit(u16(l.fpsEnd - l.fps + 32)), obj("A", p, l.fps, l.fpsEnd), lit(fp), obj("A", p, l.fpsEnd, -1)})
	// the archival form of the same leaf (empty extensions)
	add("archival-form", gi, []seg{obj("A", p, 0, l.ext-2), lit(u16(0)), obj("A", p, l.extEnd, -1)})
	// an extra unknown extension after leaf_index
	add("ext-extra", gi, []seg{obj("A", p, 0, l.ext-2), lit(u16(l.extEnd - l.ext + 3)), obj("A", p, l.ext, l.extEnd), lit([]byte{1, 0, 0}), obj("A", p, l.extEnd, -1)})
	// shape
	add("trunc-midleaf", gi, truncAt("A", p, l.start+1+h.r.Intn(l.end-l.start-1)))
	add("trunc-atleaf", gi, truncAt("A", p, l.start))
	add("trunc-lastleaf", base+int64(tw-1), truncAt("A", p, lay[tw-1].start))
	add("trunc-empty", base, truncAt("A", p, 0))
	add("extend-junk", -1, []seg{obj("A", p, 0, -1), lit([]byte{1, 2, 3, 4, 5})})
	add("extend-leafcopy", -1, []seg{obj("A", p, 0, -1), obj("A", p, lay[tw-1].start, lay[tw-1].end)})
	if tw >= 2 {
		j := h.r.Intn(tw - 1)
		add("swap-adjacent", base+int64(j), swapRanges("A", p, lay[j].start, lay[j].end, lay[j+1].start, lay[j+1].end))
		add("dup-previous", base+int64(j)+1, []seg{obj("A", p, 0, lay[j+1].start), obj("A", p, lay[j].start, lay[j].end), obj("A", p, lay[j+1].end, -1)})
	}
	if tw >= 3 {
		add("swap-first-last", base, swapRanges("A", p, lay[0].start, lay[0].end, lay[tw-1].start, lay[tw-1].end))
	}
	add("random-bit", -1, flipAt("A", p, h.r.Intn(len(d)), bit(), d))
	cs = append(cs, tcase{"missing", []override{{path: p, missing: true}}, -1})
	// substitution by other valid objects
	if q, ok := h.B.store[p]; ok && len(q) > 0 {
		add("subst-foreign-log", -1, whole("B", p))
	}
	var others, partials []string
	for q := range lg.store {
		if strings.HasPrefix(q, "tile/data/") && q != p {
			if strings.HasPrefix(q, dataPath(tn, 256)+".p/") || q == dataPath(tn, 256) {
				partials = append(partials, q)
			} else {
				others = append(others, q)
			}
		}
	}
	sort.Strings(others)
	sort.Strings(partials)
	if len(others) > 0 {
		add("subst-other-tile", -1, whole("A", others[h.r.Intn(len(others))]))
	}
	for i, q := range partials {
		// an older (shorter) or newer (longer / full) version of the same tile
		if i == 0 || i == len(partials)-1 || q == dataPath(tn, 256) {
			add("subst-width:"+strings.TrimPrefix(q, "tile/data/"), -1, whole("A", q))
		}
	}
	return cs
}

// ---- tamperings of hash tiles ---------------------------------------------------------------------------------

func (h *harness) hashTamperings(th *treeHead, fetched []string) []tcase {
	lg := th.lg
	var all []string
	for q := range lg.store {
		if strings.HasPrefix(q, "tile/") && !strings.HasPrefix(q, "tile/data/") && !strings.HasPrefix(q, "tile/names/") {
			all = append(all, q)
		}
	}
	sort.Strings(all)
	isFetched := map[string]bool{}
	for _, f := range fetched {
		isFetched[f] = true
	}
	var targets []string
	targets = append(targets, fetched...)
	for i := 0; i < 3 && len(all) > 0; i++ { // plus some tiles this tree never needs
		q := all[h.r.Intn(len(all))]
		if !isFetched[q] {
			targets = append(targets, q)
			isFetched[q] = true
		}
	}
	var cs []tcase
	for _, p := range targets {
		d := lg.store[p]
		add := func(label string, segs []seg) {
			cs = append(cs, tcase{label + "@" + strings.TrimPrefix(p, "tile/"), []override{{path: p, segs: segs}}, -1})
		}
		add("hash-bit", flipAt("A", p, h.r.Intn(len(d)), 1<<uint(h.r.Intn(8)), d))
		add("hash-trunc32", truncAt("A", p, len(d)-32))
		add("hash-trunc1", truncAt("A", p, len(d)-1))
		add("hash-extend", []seg{obj("A", p, 0, -1), obj("A", p, 0, 32)})
		if len(d) >= 64 {
			j := h.r.Intn(len(d)/32 - 1)
			add("hash-swap", swapRanges("A", p, 32*j, 32*j+32, 32*j+32, 32*j+64))
		}
		if q, ok := h.B.store[p]; ok && len(q) == len(d) {
			add("hash-foreign-log", whole("B", p))
		}
		var same []string
		for _, q := range all {
			if q != p && len(lg.store[q]) == len(d) && strings.Split(q, "/")[1] == strings.Split(p, "/")[1] {
				same = append(same, q)
			}
		}
		if len(same) > 0 {
			add("hash-other-tile", whole("A", same[h.r.Intn(len(same))]))
		}
		stem := strings.Split(p, ".p/")[0]
		for _, q := range all {
			if q != p && (q == stem || strings.HasPrefix(q, stem+".p/")) {
				add("hash-width:"+strings.TrimPrefix(q, "tile/"), whole("A", q))
				break
			}
		}
		cs = append(cs, tcase{"hash-missing@" + strings.TrimPrefix(p, "tile/"), []override{{path: p, missing: true}}, -1})
	}
	return cs
}

// a consistent forgery: leaf k gets another certificate AND the level-0 hash tile is recomputed for it
func (h *harness) consistentForgery(th *treeHead) []tcase {
	lg := th.lg
	n := th.tree.N
	k := int64(h.r.Intn(int(n)))
	tn := k / 256
	tw := 256
	if n-tn*256 < 256 {
		tw = int(n - tn*256)
	}
	p := dataPath(tn, tw)
	d := lg.store[p]
	lay, _ := layoutTile(d)
	l := lay[k-tn*256]
	off := l.cert + h.r.Intn(l.certEnd-l.cert)
	dsegs := flipAt("A", p, off, 0x10, d)
	forged := h.materialise(dsegs)
	e, _, err := sunlight.ReadTileLeafMaybeArchival(forged[l.start:])
	if err != nil {
		panic(err)
	}
	rh := tlog.RecordHash(e.MerkleTreeLeaf())
	hp := hashPath(0, tn, tw)
	if _, ok := lg.store[hp]; !ok {
		return nil
	}
	o := int(k-tn*256) * 32
	return []tcase{{"consistent-forgery-data+level0", []override{
		{path: p, segs: dsegs},
		{path: hp, segs: []seg{obj("A", hp, 0, o), lit(rh[:]), obj("A", hp, o+32, -1)}}}, k}}
}

// ---- SCTs ---------------------------------------------------------------------------------------------------------

func signLeaf(key *ecdsa.PrivateKey, msg []byte) []byte {
	d := sha256.Sum256(msg)
	sig, err := ecdsa.SignASN1(rand.Reader, key, d[:])
	if err != nil {
		panic(err)
	}
	return sig
}

type sctCase struct {
	label string
	sct   []byte
	si    sigInfo
	ovr   []override
}

func (h *harness) sctCases(th *treeHead, idx int64) []sctCase {
	lg := th.lg
	e := lg.truth[idx]
	leaf := e.MerkleTreeLeaf()
	goodSig := signLeaf(lg.key, leaf)
	mk := func(label string, f func(s *ct.SignedCertificateTimestamp, si *sigInfo)) sctCase {
		ext, err := sunlight.MarshalExtensions(sunlight.Extensions{LeafIndex: idx})
		if err != nil {
			panic(err)
		}
		s := ct.SignedCertificateTimestamp{SCTVersion: ct.V1, LogID: ct.LogID{KeyID: lg.logID},
			Timestamp: uint64(e.Timestamp), Extensions: ext,
			Signature: ct.DigitallySigned{Algorithm: tls.SignatureAndHashAlgorithm{Hash: tls.SHA256, Signature: tls.ECDSA}, Signature: goodSig}}
		si := sigInfo{signer: lg.keyID, hashalg: 4, msg: leaf}
		if f != nil {
			f(&s, &si)
		}
		b, err := tls.Marshal(s)
		if err != nil {
			panic(err)
		}
		return sctCase{label: label, sct: b, si: si}
	}
	extOf := func(i int64) []byte {
		b, err := sunlight.MarshalExtensions(sunlight.Extensions{LeafIndex: i})
		if err != nil {
			panic(err)
		}
		return b
	}
	cs := []sctCase{
		mk("sct-authentic", nil),
		mk("sct-logid-foreign", func(s *ct.SignedCertificateTimestamp, si *sigInfo) { s.LogID.KeyID = h.B.logID }),
		mk("sct-logid-bit", func(s *ct.SignedCertificateTimestamp, si *sigInfo) { s.LogID.KeyID[h.r.Intn(32)] ^= 4 }),
		mk("sct-timestamp+1", func(s *ct.SignedCertificateTimestamp, si *sigInfo) { s.Timestamp++ }),
		mk("sct-timestamp-msb", func(s *ct.SignedCertificateTimestamp, si *sigInfo) { s.Timestamp |= 1 << 63 }),
		mk("sct-index-out-of-range", func(s *ct.SignedCertificateTimestamp, si *sigInfo) { s.Extensions = extOf(th.tree.N + int64(h.r.Intn(5))) }),
		// the same leaf index plus a multiple of 2^32 (the top byte of the 40-bit field): far outside the tree
		mk("sct-index+2^32", func(s *ct.SignedCertificateTimestamp, si *sigInfo) { s.Extensions = rawIdxExt(idx + 1<<32) }),
		mk("sct-index+k*2^32", func(s *ct.SignedCertificateTimestamp, si *sigInfo) {
			s.Extensions = rawIdxExt(idx + int64(1+h.r.Intn(255))<<32)
		}),
		mk("sct-index-top-bit", func(s *ct.SignedCertificateTimestamp, si *sigInfo) { s.Extensions = rawIdxExt(idx | 0x80<<32) }),
		mk("sct-sig-foreign-key", func(s *ct.SignedCertificateTimestamp, si *sigInfo) {
			s.Signature.Signature = signLeaf(h.B.key, leaf)
			si.signer = h.B.keyID
		}),
		mk("sct-foreign-log-entirely", func(s *ct.SignedCertificateTimestamp, si *sigInfo) {
			s.LogID.KeyID = h.B.logID
			s.Signature.Signature = signLeaf(h.B.key, leaf)
			si.signer = h.B.keyID
		}),
		mk("sct-sig-garbage", func(s *ct.SignedCertificateTimestamp, si *sigInfo) {
			s.Signature.Signature = []byte{0x30, 0x06, 0x02, 0x01, 0x01, 0x02, 0x01, 0x01}
			si.signer = 0
		}),
		mk("sct-sig-bit", func(s *ct.SignedCertificateTimestamp, si *sigInfo) {
			g := append([]byte(nil), goodSig...)
			g[len(g)-1-h.r.Intn(8)] ^= 1
			s.Signature.Signature = g
			si.signer = 0
		}),
		mk("sct-hashalg-sha1", func(s *ct.SignedCertificateTimestamp, si *sigInfo) { s.Signature.Algorithm.Hash = tls.SHA1 }),
		mk("sct-hashalg-sha512", func(s *ct.SignedCertificateTimestamp, si *sigInfo) { s.Signature.Algorithm.Hash = tls.SHA512 }),
		mk("sct-hashalg-none", func(s *ct.SignedCertificateTimestamp, si *sigInfo) { s.Signature.Algorithm.Hash = tls.None }),
		mk("sct-sigalg-rsa", func(s *ct.SignedCertificateTimestamp, si *sigInfo) { s.Signature.Algorithm.Signature = tls.RSA }),
		mk("sct-sigalg-anonymous", func(s *ct.SignedCertificateTimestamp, si *sigInfo) { s.Signature.Algorithm.Signature = tls.Anonymous }),
		mk("sct-version-1", func(s *ct.SignedCertificateTimestamp, si *sigInfo) { s.SCTVersion = 1 }),
		mk("sct-ext-empty", func(s *ct.SignedCertificateTimestamp, si *sigInfo) { s.Extensions = nil }),
		mk("sct-ext-truncated", func(s *ct.SignedCertificateTimestamp, si *sigInfo) { s.Extensions = s.Extensions[:len(s.Extensions)-1] }),
		mk("sct-ext-unknown-first", func(s *ct.SignedCertificateTimestamp, si *sigInfo) {
			s.Extensions = append([]byte{9, 0, 1, 0xff}, s.Extensions...)
		}),
		mk("sct-ext-unknown-only", func(s *ct.SignedCertificateTimestamp, si *sigInfo) { s.Extensions = []byte{9, 0, 1, 0xff} }),
	}
	if th.tree.N >= 2 {
		j := (idx + 1 + int64(h.r.Intn(int(th.tree.N-1)))) % th.tree.N
		cs = append(cs, mk(fmt.Sprintf("sct-index-other(%d)", j), func(s *ct.SignedCertificateTimestamp, si *sigInfo) { s.Extensions = extOf(j) }))
		o := lg.truth[j]
		cs = append(cs, mk(fmt.Sprintf("sct-of-other-entry-resigned-by-foreign-key(%d)", j), func(s *ct.SignedCertificateTimestamp, si *sigInfo) {
			s.Extensions = extOf(j)
			s.Timestamp = uint64(o.Timestamp)
			s.Signature.Signature = signLeaf(h.B.key, o.MerkleTreeLeaf())
			si.signer, si.msg = h.B.keyID, o.MerkleTreeLeaf()
		}))
		// same index, signature taken from another entry's authentic SCT
		cs = append(cs, mk(fmt.Sprintf("sct-sig-of-other-entry(%d)", j), func(s *ct.SignedCertificateTimestamp, si *sigInfo) {
			s.Signature.Signature = signLeaf(lg.key, o.MerkleTreeLeaf())
			si.msg = o.MerkleTreeLeaf()
		}))
	}
	a := mk("sct-trailing-bytes", nil)
	a.sct = append(a.sct, 0, 1, 2)
	cs = append(cs, a)
	t := mk("sct-truncated", nil)
	t.sct = t.sct[:len(t.sct)-3]
	cs = append(cs, t)
	cs = append(cs, sctCase{label: "sct-empty", sct: nil, si: sigInfo{}})
	// a log key forges the LEAF: signature by the right key over a leaf that is not in the tree
	fe := *e
	fe.Certificate = append([]byte("forged"), e.Certificate...)
	cs = append(cs, mk("sct-signed-forged-leaf", func(s *ct.SignedCertificateTimestamp, si *sigInfo) {
		s.Signature.Signature = signLeaf(lg.key, fe.MerkleTreeLeaf())
		si.msg = fe.MerkleTreeLeaf()
	}))
	return cs
}

func (h *harness) runIncl(th *treeHead, allow bool, sc sctCase) {
	lg := th.lg
	rt := h.server(lg, sc.ovr)
	c := h.client(&lg.key.PublicKey, rt, allow)
	var res, mon string
	func() {
		defer func() {
			if r := recover(); r != nil {
				res, mon = fmt.Sprintf("panic(%v)", r), "holds"
			}
		}()
		e, p, err := c.CheckInclusion(context.Background(), th.tree, sc.sct)
		if err != nil {
			res, mon = "err:"+classifyIncl(err), "holds"
			return
		}
		res = h.showEntry(lg, e.LeafIndex, e, p)
		mon = h.monIncl(th, sc.sct, e, p)
		if h.uncDiff(lg, e.LeafIndex, e) {
			h.stats["cases_yielding_tampered_uncovered_fields"]++
			h.stats["entries_yielded_with_tampered_uncovered_fields"]++
		}
	}()
	args := fmt.Sprintf("%s|%s|%s|%s|%s", th.tid, b01(allow), sc.label, ovrString(sc.ovr), canonSCT(sc.sct, sc.si))
	h.emit("incl|%s|=>|%s", args, res)
	h.emit("mon_incl|%s|%s|%s|%x|=>|%s", th.tid, sc.label, ovrString(sc.ovr), sc.sct, h.tag(sc.ovr, mon))
	h.runInclAlt(th, allow, sc)
	h.stats["incl"]++
	h.stats["incl_"+strings.SplitN(res, ":", 3)[0]+"_"+strings.SplitN(strings.SplitN(res+":", ":", 3)[1], "(", 2)[0]]++
}

// a confirmed SCT must be authentic, judged from the ground truth with crypto/ecdsa directly
func (h *harness) monIncl(th *treeHead, sctBytes []byte, e *sunlight.LogEntry, p tlog.RecordProof) string {
	lg := th.lg
	var s ct.SignedCertificateTimestamp
	if _, err := tls.Unmarshal(sctBytes, &s); err != nil {
		return "FAILS:confirmed an SCT that does not parse"
	}
	if s.LogID.KeyID != lg.logID {
		return "FAILS:confirmed an SCT with a foreign log ID"
	}
	// the leaf index is read here byte by byte (not with the library's own parser, which is under test)
	li, ok := rawLeafIndex(s.Extensions)
	if !ok || li < 0 || li >= th.tree.N {
		return "FAILS:confirmed an SCT without a leaf index inside the tree"
	}
	x := struct{ LeafIndex int64 }{li}
	t := lg.truth[x.LeafIndex]
	if !t.RFC6962ArchivalLeaf && t.LeafIndex != li {
		return fmt.Sprintf("FAILS:confirmed an SCT naming leaf index %d although the authentic leaf at that position carries leaf index %d", li, t.LeafIndex)
	}
	if uint64(t.Timestamp) != s.Timestamp {
		return fmt.Sprintf("FAILS:confirmed an SCT whose timestamp %d is not the leaf's %d", s.Timestamp, t.Timestamp)
	}
	if s.Signature.Algorithm.Hash != tls.SHA256 || s.Signature.Algorithm.Signature != tls.ECDSA {
		return "FAILS:confirmed an SCT with an algorithm the log never uses"
	}
	d := sha256.Sum256(t.MerkleTreeLeaf())
	if !ecdsa.VerifyASN1(&lg.key.PublicKey, d[:], s.Signature.Signature) {
		return "FAILS:confirmed an SCT whose signature is not the log key's over the authentic leaf"
	}
	return h.monEntry(th, x.LeafIndex, e, p)
}

// ---- checkpoints -----------------------------------------------------------------------------------------------------

func noteLine(name string, keyhash uint32, blob []byte) string {
	b := binary.BigEndian.AppendUint32(nil, keyhash)
	b = append(b, blob...)
	return "— " + name + " " + base64.StdEncoding.EncodeToString(b) + "\n"
}

func rfcBlob(ts uint64, hashalg, sigalg byte, sig []byte) []byte {
	b := binary.BigEndian.AppendUint64(nil, ts)
	b = append(b, hashalg, sigalg)
	b = binary.BigEndian.AppendUint16(b, uint16(len(sig)))
	return append(b, sig...)
}

func signSTH(key *ecdsa.PrivateKey, n int64, ts uint64, root [32]byte) []byte {
	sig, err := ecdsa.SignASN1(rand.Reader, key, sthDigest(n, ts, root))
	if err != nil {
		panic(err)
	}
	return sig
}

func rfcKeyHash(name string, spki []byte) uint32 {
	id := sha256.Sum256(spki)
	hh := sha256.New()
	hh.Write([]byte(name))
	hh.Write([]byte("\n"))
	hh.Write([]byte{0x05})
	hh.Write(id[:])
	return binary.BigEndian.Uint32(hh.Sum(nil))
}

func (h *harness) runCkpt(lg *fixtureLog, label string, served []byte, present bool) {
	store := map[string][]byte{}
	if present {
		store["checkpoint"] = served
	}
	rt := &tamperRT{base: store, ovr: map[string][]byte{}, miss: map[string]bool{}}
	c := h.client(&lg.key.PublicKey, rt, false)
	var res, mon string
	func() {
		defer func() {
			if r := recover(); r != nil {
				res, mon = fmt.Sprintf("panic(%v)", r), "holds"
			}
		}()
		cp, nt, err := c.Checkpoint(context.Background())
		if err != nil {
			res, mon = "err:"+classifyCkpt(err), "holds"
			return
		}
		res = fmt.Sprintf("ok:%d:%x:%d", cp.N, cp.Hash[:8], len(nt.Sigs))
		mon = h.monCkpt(lg, served, cp)
	}()
	sym := "-"
	if present {
		var keys []knownKey
		var trees []knownTree
		var times []uint64
		for _, l := range []*fixtureLog{h.A, h.B} {
			keys = append(keys, knownKey{l.keyID, &l.key.PublicKey})
			for _, th := range l.heads {
				trees = append(trees, knownTree{th.tree.N, th.tree.Hash})
				times = append(times, uint64(th.time))
			}
		}
		sym = canonNote(served, keys, trees, times)
	}
	h.emit("ckpt|%d|%s|%s|=>|%s", lg.keyID, label, sym, res)
	h.emit("mon_ckpt|%d|%s|%x|=>|%s", lg.keyID, label, served, mon)
	h.stats["ckpt"]++
	h.stats["ckpt_"+strings.SplitN(res, ":", 3)[0]+"_"+strings.SplitN(strings.SplitN(res+":", ":", 3)[1], "(", 2)[0]]++
}

// a returned checkpoint must carry a signature by the configured key over exactly its tree head
func (h *harness) monCkpt(lg *fixtureLog, served []byte, cp torchwood.Checkpoint) string {
	if cp.Extension != "" {
		// the RFC 6962 tree head signature covers size, root and timestamp only: extension lines are
		// content the configured key never signed
		return fmt.Sprintf("FAILS:returned a checkpoint carrying %d bytes of extension lines, which the log key's signature does not cover", len(cp.Extension))
	}
	i := strings.LastIndex(string(served), "\n\n")
	if i < 0 {
		return "FAILS:returned a checkpoint from a note without signature block"
	}
	want := rfcKeyHash(cp.Origin, lg.spki)
	for _, line := range strings.Split(strings.TrimSuffix(string(served[i+2:]), "\n"), "\n") {
		line = strings.TrimPrefix(line, "— ")
		nm, b64, _ := strings.Cut(line, " ")
		raw, err := base64.StdEncoding.DecodeString(b64)
		if err != nil || len(raw) < 16 || nm != cp.Origin || binary.BigEndian.Uint32(raw) != want {
			continue
		}
		blob := raw[4:]
		ts := binary.BigEndian.Uint64(blob)
		l := int(binary.BigEndian.Uint16(blob[10:]))
		if 12+l != len(blob) {
			continue
		}
		if ecdsa.VerifyASN1(&lg.key.PublicKey, sthDigest(cp.N, ts, cp.Hash), blob[12:]) {
			return "holds"
		}
	}
	return fmt.Sprintf("FAILS:returned checkpoint (size %d) carries no signature by the configured key over that tree head", cp.N)
}

func (h *harness) ckptCases() {
	A, B := h.A, h.B
	last := A.heads[len(A.heads)-1]
	honest := last.checkpoint
	h.runCkpt(A, "honest-latest", honest, true)
	for _, th := range A.heads[:len(A.heads)-1] {
		h.runCkpt(A, "stale-"+th.tid, th.checkpoint, true)
	}
	h.runCkpt(A, "missing", nil, false)
	h.runCkpt(A, "empty", []byte{}, true)
	h.runCkpt(A, "foreign-log", B.heads[len(B.heads)-1].checkpoint, true)
	h.runCkpt(B, "foreign-log-reverse", honest, true)

	text := func(name string, n int64, root [32]byte, ext string) string {
		return torchwood.Checkpoint{Origin: name, Tree: tlog.Tree{N: n, Hash: root}, Extension: ext}.String()
	}
	n, root, ts := last.tree.N, [32]byte(last.tree.Hash), uint64(last.time)
	khA := rfcKeyHash(A.name, A.spki)
	khB := rfcKeyHash(A.name, B.spki)
	good := func() string { return noteLine(A.name, khA, rfcBlob(ts, 4, 3, signSTH(A.key, n, ts, root))) }
	serve := func(label string, t string, lines ...string) {
		h.runCkpt(A, label, []byte(t+"\n"+strings.Join(lines, "")), true)
	}
	tx := text(A.name, n, root, "")
	serve("resigned-honest", tx, good())
	serve("no-signature-lines", tx)
	serve("foreign-key-own-keyhash", tx, noteLine(A.name, khB, rfcBlob(ts, 4, 3, signSTH(B.key, n, ts, root))))
	serve("foreign-key-claiming-configured-keyhash", tx, noteLine(A.name, khA, rfcBlob(ts, 4, 3, signSTH(B.key, n, ts, root))))
	serve("foreign-key-then-good", tx, noteLine(A.name, khB, rfcBlob(ts, 4, 3, signSTH(B.key, n, ts, root))), good())
	serve("duplicate-good", tx, good(), good())
	serve("good-then-forged-same-key", tx, good(), noteLine(A.name, khA, rfcBlob(ts, 4, 3, signSTH(B.key, n, ts, root))))
	serve("forged-then-good-same-key", tx, noteLine(A.name, khA, rfcBlob(ts, 4, 3, signSTH(B.key, n, ts, root))), good())
	serve("cosigned-by-unknown", tx, noteLine("witness.example", 12345, []byte("some cosignature bytes")), good())
	serve("size-changed", text(A.name, n+1, root, ""), good())
	serve("size-stale-sig", text(A.name, A.heads[1].tree.N, root, ""), good())
	r2 := root
	r2[h.r.Intn(32)] ^= 1
	serve("root-changed", text(A.name, n, r2, ""), good())
	serve("signed-other-root-by-configured-key", text(A.name, n, r2, ""), noteLine(A.name, khA, rfcBlob(ts, 4, 3, signSTH(A.key, n, ts, r2))))
	serve("timestamp-changed", tx, noteLine(A.name, khA, rfcBlob(ts+1, 4, 3, signSTH(A.key, n, ts, root))))
	serve("hashalg-changed", tx, noteLine(A.name, khA, rfcBlob(ts, 2, 3, signSTH(A.key, n, ts, root))))
	serve("sigalg-rsa", tx, noteLine(A.name, khA, rfcBlob(ts, 4, 1, signSTH(A.key, n, ts, root))))
	serve("blob-trailing", tx, noteLine(A.name, khA, append(rfcBlob(ts, 4, 3, signSTH(A.key, n, ts, root)), 0)))
	serve("blob-short", tx, noteLine(A.name, khA, []byte{1, 2, 3}))
	g := signSTH(A.key, n, ts, root)
	g[len(g)-2] ^= 1
	serve("signature-bit", tx, noteLine(A.name, khA, rfcBlob(ts, 4, 3, g)))
	serve("extension-line-signed", text(A.name, n, root, "extra\n"), good())
	serve("origin-other-name-keyhash-of-that-name", text("other.example/log", n, root, ""),
		noteLine("other.example/log", rfcKeyHash("other.example/log", A.spki), rfcBlob(ts, 4, 3, signSTH(A.key, n, ts, root))))
	serve("name-with-space", text("bad name", n, root, ""), good())
	serve("name-with-plus", text("bad+name", n, root, ""), noteLine("bad+name", khA, rfcBlob(ts, 4, 3, signSTH(A.key, n, ts, root))))
	h.runCkpt(A, "no-blank-line", []byte(tx+good()), true)
	h.runCkpt(A, "control-character", []byte(strings.Replace(tx, "\n", "\x01\n", 1)+"\n"+good()), true)
	h.runCkpt(A, "text-two-lines", []byte(A.name+"\n5\n\n"+good()), true)
	h.runCkpt(A, "size-not-canonical", []byte(A.name+"\n0600\n"+base64.StdEncoding.EncodeToString(root[:])+"\n\n"+good()), true)
	var many []string
	for i := 0; i < 101; i++ {
		many = append(many, noteLine("w.example", uint32(i), []byte("xxxxx")))
	}
	serve("101-signatures", tx, append(many, good())...)
	// random single-byte corruptions of the honest note
	k := 6
	if h.thor {
		k = 60
	}
	for i := 0; i < k; i++ {
		d := append([]byte(nil), honest...)
		o := h.r.Intn(len(d))
		d[o] ^= 1 << uint(h.r.Intn(7))
		h.runCkpt(A, fmt.Sprintf("honest-byte-%d-corrupted", o), d, true)
	}
}

// ---- a SYNTHETIC log with RFC 6962 archival leaves (the real sequencer never writes them) ------------------------------

func (h *harness) synthetic() *treeHead {
	lg := &fixtureLog{sid: "S", name: "example.com/synthetic", key: h.A.key, keyID: h.A.keyID, spki: h.A.spki,
		logID: h.A.logID, store: map[string][]byte{}}
	n := 7 // position 6 holds a non-archival leaf whose authenticated leaf_index is 3 (an entry sequenced twice)
	var tile []byte
	var stored []tlog.Hash
	hr := tlog.HashReaderFunc(func(idx []int64) ([]tlog.Hash, error) {
		var out []tlog.Hash
		for _, i := range idx {
			out = append(out, stored[i])
		}
		return out, nil
	})
	for i := 0; i < n; i++ {
		e := &sunlight.LogEntry{Certificate: []byte(fmt.Sprintf("synthetic certificate %d", i)), LeafIndex: int64(i), Timestamp: 1_600_000_000_000 + int64(i)}
		if i == 1 || i == 4 {
			e.IsPrecert = true
			e.IssuerKeyHash[3] = byte(i)
			e.PreCertificate = []byte("synthetic precertificate")
		}
		if i == 2 || i == 4 {
			e.RFC6962ArchivalLeaf, e.LeafIndex = true, 0
		}
		if i == 6 {
			c := *lg.truth[3]
			e = &c
		}
		lg.truth = append(lg.truth, e)
		tile = sunlight.AppendTileLeaf(tile, e)
		hs, err := tlog.StoredHashes(int64(i), e.MerkleTreeLeaf(), hr)
		if err != nil {
			panic(err)
		}
		stored = append(stored, hs...)
	}
	root, err := tlog.TreeHash(int64(n), hr)
	if err != nil {
		panic(err)
	}
	for _, t := range tlog.NewTiles(8, 0, int64(n)) {
		d, err := tlog.ReadTileData(t, hr)
		if err != nil {
			panic(err)
		}
		lg.store[sunlight.TilePath(t)] = d
	}
	lg.store[dataPath(0, n)] = tile
	h.stores["S"] = lg.store
	h.dumpStore(lg)
	th := &treeHead{tid: "S7", lg: lg, tree: tlog.Tree{N: int64(n), Hash: root}}
	h.emit("tree|%s|%s|%d|%d|=>|%x", th.tid, lg.sid, lg.keyID, n, root[:])
	return th
}

func (h *harness) archivalCases() {
	th := h.synthetic()
	for _, allow := range []bool{false, true} {
		for _, s := range []int64{0, 2, 3, 5, 6} {
			h.runEntries(th, allow, s%2 == 0, s, "archival-leaves", nil)
		}
		for i := int64(0); i < 7; i++ {
			h.runEntry(th, allow, i, "archival-leaves", nil)
		}
		for _, i := range []int64{1, 2, 4} {
			sc := h.sctCases(th, i)[0]
			sc.label = "sct-authentic-archival-log"
			h.runIncl(th, allow, sc)
		}
		// the index check of Entry is skipped for archival leaves: an SCT naming leaf 2 for archival entry 4
		sc := h.sctCases(th, 4)[0]
		ext, _ := sunlight.MarshalExtensions(sunlight.Extensions{LeafIndex: 2})
		var s ct.SignedCertificateTimestamp
		if _, err := tls.Unmarshal(sc.sct, &s); err == nil {
			s.Extensions = ext
			sc.sct, _ = tls.Marshal(s)
			sc.label = "sct-of-archival-4-naming-archival-2"
			h.runIncl(th, allow, sc)
		}
		// position 6 holds a copy of leaf 3 (authenticated leaf_index 3): the SCT of leaf 3 rewritten to name position 6
		sc = h.sctCases(th, 3)[0]
		ext6, _ := sunlight.MarshalExtensions(sunlight.Extensions{LeafIndex: 6})
		var s6 ct.SignedCertificateTimestamp
		if _, err := tls.Unmarshal(sc.sct, &s6); err == nil {
			s6.Extensions = ext6
			sc.sct, _ = tls.Marshal(s6)
			sc.label = "sct-of-leaf-3-naming-position-6"
			h.runIncl(th, allow, sc)
		}
	}
}

// ---- everything ----------------------------------------------------------------------------------------------------------

// p: always in the thorough tier, with probability x in the quick tier
func (h *harness) p(x float64) bool { return h.thor || h.r.Float64() < x }

func (h *harness) runAll(big int) {
	A := h.A
	for _, th := range A.heads {
		n := th.tree.N
		isBig := n > 600
		// fetch plans (ties Model.reader_tiles)
		if !isBig {
			h.runPlan(th, 0, n)
		}
		for _, t := range dataTilesOf(n) {
			if !isBig || t[0]%17 == 0 || t[0] >= n/256-1 {
				h.runPlan(th, t[0]*256, t[0]*256+t[1])
			}
		}
		for i := 0; i < 6; i++ {
			h.runPlanProof(th, int64(h.r.Intn(int(n))))
		}
		h.runPlanProof(th, 0)
		h.runPlanProof(th, n-1)

		// honest server: both iterators, every start offset around the tile boundaries
		if isBig {
			for _, s := range []int64{0, 12799, 12800, 12801, 6000, n - 1} {
				h.runEntries(th, false, h.r.Intn(2) == 0, s, "honest", nil)
			}
			h.runEntries(th, false, false, 0, "honest", nil)
			h.bigCases(th)
			continue
		}
		for _, s := range starts(n) {
			for _, all := range []bool{false, true} {
				if h.thor || n < 255 || h.p(0.2) {
					h.runEntries(th, s%2 == 0, all, s, "honest", nil)
				}
			}
		}
		// start <= -256 is outside the modelled domain (negative tile numbers): monitor only
		for _, s := range []int64{-256, -257, -1000} {
			rt := h.server(A, nil)
			c := h.client(&A.key.PublicKey, rt, false)
			ys, end := h.iterate(c, th.tree, s == -257, s)
			h.emit("mon_negstart|%s|%d|%s:%d|=>|%s", th.tid, s, strings.SplitN(end, "(", 2)[0], len(ys), h.monYield(th, s, ys))
			h.stats["negstart_"+strings.SplitN(end, "(", 2)[0]]++
		}
		for _, i := range []int64{-1, 0, 1, 254, 255, 256, 257, n - 1, n, n + 1, int64(h.r.Intn(int(n)))} {
			if i < 2 || i >= n-1 || h.p(0.4) {
				h.runEntry(th, false, i, "honest", nil)
			}
		}
		h.runEntry(th, true, int64(h.r.Intn(int(n))), "honest", nil)

		// a tree head that is not the log's: wrong root, wrong size
		{
			bad := *th
			bad.tree.Hash[5] ^= 1
			bad.tid = th.tid + "x"
			h.emit("tree|%s|%s|%d|%d|=>|%x", bad.tid, A.sid, A.keyID, n, th.tree.Hash[:])
			h.emit("badroot|%s|%x|=>|ok", bad.tid, bad.tree.Hash[:])
			h.runEntries(&bad, false, true, 0, "wrong-root", nil)
			h.runEntry(&bad, false, int64(h.r.Intn(int(n))), "wrong-root", nil)
		}

		// data tile tampering
		for _, t := range dataTilesOf(n) {
			tcs := h.dataTamperings(th, t[0], int(t[1]))
			for _, tc := range tcs {
				// quick tier: every class on the cheap tiles (1, 88, 255 leaves), a sample on each full tile
				if !h.thor && t[1] == 256 && h.r.Intn(100) >= 22 {
					continue
				}
				h.stats["tamper_class_"+strings.SplitN(tc.label, ":", 2)[0]]++
				s0 := int64(0)
				if !h.thor && h.r.Intn(4) != 0 {
					s0 = t[0] * 256 // quick tier: mostly skip the tiles before the tampered one
				}
				h.runEntries(th, false, true, s0, tc.label, tc.ovr)
				if h.p(0.34) {
					s := t[0]*256 + int64(h.r.Intn(int(t[1])))
					h.runEntries(th, h.r.Intn(4) == 0, h.r.Intn(2) == 0, s, tc.label, tc.ovr)
				}
				idx := tc.leaf
				if idx < 0 {
					idx = t[0]*256 + int64(h.r.Intn(int(t[1])))
				}
				h.runEntry(th, strings.HasPrefix(tc.label, "archival"), idx, tc.label, tc.ovr)
				if idx > t[0]*256 && h.p(0.34) {
					h.runEntry(th, false, idx-1, tc.label, tc.ovr)
				}
				if idx+1 < n && h.p(0.25) {
					h.runEntry(th, false, idx+1, tc.label, tc.ovr)
				}
				if ((strings.HasPrefix(tc.label, "unc-") || strings.HasPrefix(tc.label, "cov-")) && h.p(0.6)) || h.p(0.15) {
					sc := h.sctCases(th, idx)[0]
					sc.label, sc.ovr = "sct-authentic+"+tc.label, tc.ovr
					h.runIncl(th, false, sc)
				}
			}
		}

		// hash tile tampering
		rt := h.server(A, nil)
		c := h.client(&A.key.PublicKey, rt, false)
		for range c.AllEntries(context.Background(), th.tree, 0) {
		}
		fetched := strings.Split(hashTilesOf(rt.reqs), ",")
		if fetched[0] == "-" {
			fetched = nil
		}
		lastTile := dataTilesOf(n)[len(dataTilesOf(n))-1]
		forgeries := h.consistentForgery(th)
		for i := 0; i < 2 && n >= 600; i++ {
			forgeries = append(forgeries, h.consistentForgery(th)...)
		}
		for _, tc := range append(h.hashTamperings(th, fetched), forgeries...) {
			h.stats["tamper_class_"+strings.SplitN(strings.SplitN(tc.label, "@", 2)[0], ":", 2)[0]]++
			forgery := strings.HasPrefix(tc.label, "consistent")
			s0 := int64(0)
			if !h.thor && !forgery && n > 256 {
				s0 = 256 * int64(h.r.Intn(int(lastTile[0])+1)) // quick tier: start at a random tile
			}
			h.runEntries(th, false, h.r.Intn(2) == 0, s0, tc.label, tc.ovr)
			if forgery || h.p(0.3) {
				h.runEntries(th, false, false, lastTile[0]*256, tc.label, tc.ovr)
			}
			idx := tc.leaf
			if idx < 0 {
				idx = int64(h.r.Intn(int(n)))
			}
			if forgery || h.p(0.6) {
				h.runEntry(th, false, idx, tc.label, tc.ovr)
			}
			h.monHashReader(th, 0, n, tc.label, tc.ovr)
			h.monHashReader(th, lastTile[0]*256, n, tc.label, tc.ovr)
			if forgery || h.p(0.25) {
				sc := h.sctCases(th, idx)[0]
				sc.label, sc.ovr = "sct-authentic+"+tc.label, tc.ovr
				h.runIncl(th, false, sc)
			}
		}

		// SCTs
		idxs := []int64{0, n - 1, int64(h.r.Intn(int(n)))}
		if n == 1 {
			idxs = idxs[:1]
		} else if !h.thor {
			idxs = idxs[1:]
			if n != 600 {
				idxs = idxs[1:]
			}
		}
		for _, idx := range idxs {
			for _, sc := range h.sctCases(th, idx) {
				h.runIncl(th, false, sc)
			}
		}
	}
	h.ckptCases()
	h.rsaCkptCases()
	h.archivalCases()
}

// the tree of more than 50 data tiles: the second batch of torchwood's Entries loop
func (h *harness) bigCases(th *treeHead) {
	n := th.tree.N
	for _, tn := range []int64{0, 49, 50, n / 256} {
		w := int64(256)
		if n-tn*256 < w {
			w = n - tn*256
		}
		cs := h.dataTamperings(th, tn, int(w))
		for _, want := range []string{"cov-certificate", "unc-precert-replace", "missing", "trunc-lastleaf"} {
			for _, tc := range cs {
				if tc.label == want {
					h.runEntries(th, false, true, 0, fmt.Sprintf("%s@tile%d", tc.label, tn), tc.ovr)
					if tn == 50 {
						h.runEntries(th, false, false, 12800+int64(h.r.Intn(100)), fmt.Sprintf("%s@tile%d", tc.label, tn), tc.ovr)
					}
				}
			}
		}
	}
	for _, i := range []int64{0, 12799, 12800, n - 1} {
		h.runEntry(th, false, i, "honest", nil)
	}
	p := hashPath(1, 0, int(n>>8))
	if d, ok := th.lg.store[p]; ok {
		ovr := []override{{path: p, segs: flipAt("A", p, h.r.Intn(len(d)), 2, d)}}
		h.runEntries(th, false, true, 0, "hash-bit@"+strings.TrimPrefix(p, "tile/"), ovr)
		h.monHashReader(th, 12800, n, "hash-bit@"+strings.TrimPrefix(p, "tile/"), ovr)
	}
}


// rawIdxExt: CTExtensions holding one leaf_index extension (type 0, 40-bit big-endian value), built by hand
func rawIdxExt(i int64) []byte {
	return []byte{0, 0, 5, byte(i >> 32), byte(i >> 24), byte(i >> 16), byte(i >> 8), byte(i)}
}

// rawLeafIndex: the value of the first leaf_index extension, skipping unknown extensions; ok=false when
// the bytes are not a well-formed extension list containing exactly that
func rawLeafIndex(b []byte) (int64, bool) {
	found, v := false, int64(0)
	for len(b) > 0 {
		if len(b) < 3 {
			return 0, false
		}
		typ, n := b[0], int(b[1])<<8|int(b[2])
		if len(b) < 3+n {
			return 0, false
		}
		body := b[3 : 3+n]
		b = b[3+n:]
		if typ == 0 {
			if found || n != 5 {
				return 0, false
			}
			found = true
			v = int64(body[0])<<32 | int64(body[1])<<24 | int64(body[2])<<16 | int64(body[3])<<8 | int64(body[4])
		}
	}
	return v, found
}
