//go:build verif

package main

import (
	"bytes"
	"crypto/ecdsa"
	"crypto/sha256"
	"encoding/base64"
	"encoding/binary"
	"encoding/hex"
	"fmt"
	"strings"
	"unicode"
	"unicode/utf8"

	"filippo.io/sunlight"
	"filippo.io/torchwood"
	ct "github.com/google/certificate-transparency-go"
	"github.com/google/certificate-transparency-go/tls"
	"golang.org/x/mod/sumdb/note"
)

func hx(b []byte) string {
	if len(b) == 0 {
		return "-"
	}
	return hex.EncodeToString(b)
}

// ---- error classes (Client/Model.v eclass, rendered by Run.show_eclass) ---------------------------

func classifyEntries(err error) string {
	s := err.Error()
	switch {
	case strings.Contains(s, "unexpected end of tile data"):
		return "eof"
	case strings.Contains(s, "failed to cut entry"):
		return "cut"
	case strings.Contains(s, "hash mismatch for entry"):
		return "mismatch"
	case strings.Contains(s, "unexpected leftover data"):
		return "leftover"
	case strings.Contains(s, "unexpected trailing data in entry"):
		return "trailing"
	case strings.Contains(s, "leaf is missing leaf index extension"), strings.HasPrefix(s, "invalid data tile"):
		return "parse"
	case strings.Contains(s, "tile/data/") && strings.Contains(s, "unexpected status code"):
		return "fetch"
	case strings.Contains(s, "unexpected status code"), strings.Contains(s, "downloaded inconsistent tile"),
		strings.Contains(s, "bad result slice"), strings.Contains(s, "indexes not in tree"),
		strings.Contains(s, "bad math in tileHashReader"):
		return "hashes"
	}
	return "other(" + s + ")"
}

func classifyEntry(err error) string {
	s := err.Error()
	switch {
	case strings.Contains(s, "invalid index"):
		return "range"
	case strings.Contains(s, "failed to read tile"):
		return "fetch"
	case strings.Contains(s, "no entry at index"):
		return "noentry"
	case strings.Contains(s, "failed to cut entry"):
		return "cut"
	case strings.Contains(s, "failed to prove entry"):
		return "prove"
	case strings.Contains(s, "does not match Merkle tree"):
		return "check"
	case strings.Contains(s, "failed to parse log entry"):
		return "parse"
	case strings.Contains(s, "unexpected trailing data in entry"):
		return "trailing"
	case strings.Contains(s, "does not match requested index"):
		return "index"
	}
	return "other(" + s + ")"
}

func classifyIncl(err error) string {
	s := err.Error()
	switch {
	case strings.Contains(s, "failed to unmarshal SCT"):
		return "sctparse"
	case strings.Contains(s, "unsupported SCT version"):
		return "sctversion"
	case strings.Contains(s, "SCT log ID does not match public key"):
		return "logid"
	case strings.Contains(s, "failed to parse SCT extensions"):
		return "sctext"
	case strings.Contains(s, "failed to fetch log entry"):
		return classifyEntry(err)
	case strings.Contains(s, "SCT timestamp"):
		return "timestamp"
	case strings.Contains(s, "SCT signature verification failed"):
		return "sig"
	}
	return "other(" + s + ")"
}

func classifyCkpt(err error) string {
	s := err.Error()
	switch {
	case strings.Contains(s, "failed to fetch checkpoint"):
		return "fetch"
	case strings.Contains(s, "failed to create verifier"):
		return "ckverifier"
	case strings.Contains(s, "malformed note"):
		return "ckmalformed"
	case strings.Contains(s, "note has no verifiable signatures"):
		return "ckunverified"
	case strings.Contains(s, "invalid signature for key"):
		return "ckinvalidsig"
	case strings.Contains(s, "failed to parse checkpoint"):
		return "ckparse"
	case strings.Contains(s, "does not match log name"):
		return "ckorigin"
	}
	return "other(" + s + ")"
}

// ---- renderings shared with Client/Run.v -------------------------------------------------------------

func covBytes(i int64, e *sunlight.LogEntry) []byte {
	m := e.MerkleTreeLeaf()
	b := binary.BigEndian.AppendUint64(nil, uint64(i))
	b = binary.BigEndian.AppendUint32(b, uint32(len(m)))
	return append(b, m...)
}

func uncBytes(e *sunlight.LogEntry) []byte {
	b := binary.BigEndian.AppendUint32(nil, uint32(len(e.PreCertificate)))
	b = append(b, e.PreCertificate...)
	b = binary.BigEndian.AppendUint32(b, uint32(len(e.ChainFingerprints)))
	for _, f := range e.ChainFingerprints {
		b = append(b, f[:]...)
	}
	return b
}

func digest16(b []byte) string {
	h := sha256.Sum256(b)
	return hex.EncodeToString(h[:8])
}

// ---- the covered fields, compared field by field with the ground truth -------------------------------

func coveredEqual(got, want *sunlight.LogEntry) string {
	switch {
	case got.IsPrecert != want.IsPrecert:
		return "entry type"
	case !bytes.Equal(got.Certificate, want.Certificate):
		return "certificate/TBS"
	case got.IsPrecert && got.IssuerKeyHash != want.IssuerKeyHash:
		return "issuer key hash"
	case got.Timestamp != want.Timestamp:
		return "timestamp"
	case got.LeafIndex != want.LeafIndex:
		return "leaf index"
	case got.RFC6962ArchivalLeaf != want.RFC6962ArchivalLeaf:
		return "archival flag"
	}
	return ""
}

// ---- symbolic form of a served checkpoint (Client/Model.v snote) -------------------------------------

type knownKey struct {
	id  int
	pub *ecdsa.PublicKey
}

type knownTree struct {
	n    int64
	root [32]byte
}

func validNameIndependent(name string) bool {
	if name == "" || !utf8.ValidString(name) || strings.Contains(name, "+") {
		return false
	}
	for _, r := range name {
		if unicode.IsSpace(r) {
			return false
		}
	}
	return true
}

func sthDigest(n int64, ts uint64, root [32]byte) []byte {
	b, err := ct.SerializeSTHSignatureInput(ct.SignedTreeHead{Version: ct.V1, TreeSize: uint64(n),
		Timestamp: ts, SHA256RootHash: ct.SHA256Hash(root)})
	if err != nil {
		panic(err)
	}
	d := sha256.Sum256(b)
	return d[:]
}

// canonNote renders the served bytes as: wf,namehex,namevalid,text,sigs
//   text = - | originhex:size:roothex:exthex
//   sigs = - | sig/sig/...   sig = namehex:keyhash:blob   blob = - | ts:hashalg:sigalg:sg
//   sg   = - | key:size:ts:roothex      (which known key signed which tree head)
func canonNote(msg []byte, keys []knownKey, trees []knownTree, times []uint64) string {
	name, _, _ := strings.Cut(string(msg), "\n")
	// syntactic well-formedness: note.Open with no verifier answers UnverifiedNoteError exactly when the
	// note is well formed
	_, err := note.Open(msg, note.VerifierList())
	_, wf := err.(*note.UnverifiedNoteError)
	text, sigs := "-", "-"
	if wf {
		split := bytes.LastIndex(msg, []byte("\n\n"))
		t := string(msg[:split+1])
		var cands []knownTree
		if c, err := torchwood.ParseCheckpoint(t); err == nil {
			text = fmt.Sprintf("%s:%d:%s:%s", hx([]byte(c.Origin)), c.N, hx(c.Hash[:]), hx([]byte(c.Extension)))
			cands = append(cands, knownTree{c.N, c.Hash})
		}
		cands = append(cands, trees...)
		var ss []string
		for _, line := range strings.Split(strings.TrimSuffix(string(msg[split+2:]), "\n"), "\n") {
			line = strings.TrimPrefix(line, "— ")
			nm, b64, _ := strings.Cut(line, " ")
			raw, _ := base64.StdEncoding.DecodeString(b64)
			kh := binary.BigEndian.Uint32(raw[:4])
			blob := raw[4:]
			bs := "-"
			if len(blob) >= 12 {
				ts := binary.BigEndian.Uint64(blob[:8])
				ha, sa := blob[8], blob[9]
				l := int(binary.BigEndian.Uint16(blob[10:12]))
				if 12+l == len(blob) {
					sig := blob[12:]
					sg := "-"
					tcs := append([]uint64{ts}, times...)
				search:
					for _, k := range keys {
						for _, c := range cands {
							for _, tc := range tcs {
								if ecdsa.VerifyASN1(k.pub, sthDigest(c.n, tc, c.root), sig) {
									sg = fmt.Sprintf("%d:%d:%d:%s", k.id, c.n, tc, hx(c.root[:]))
									break search
								}
							}
						}
					}
					bs = fmt.Sprintf("%d:%d:%d:%s", ts, ha, sa, sg)
				}
			}
			ss = append(ss, fmt.Sprintf("%s:%d:%s", hx([]byte(nm)), kh, bs))
		}
		if len(ss) > 0 {
			sigs = strings.Join(ss, "/")
		}
	}
	b := func(x bool) string {
		if x {
			return "1"
		}
		return "0"
	}
	return strings.Join([]string{b(wf), hx([]byte(name)), b(validNameIndependent(name)), text, sigs}, ",")
}

// ---- symbolic form of an SCT (Client/Model.v sct) -------------------------------------------------------

// what the harness knows about the signature it put into an SCT
type sigInfo struct {
	signer  int    // key number, 0 = not a signature by any key
	hashalg int    // the hash the signer actually used (4 = SHA-256)
	msg     []byte // the signed message
}

// canonSCT: - | ver,logidhex,ts,exthex,hashalg,sigalg,signer,signhash,msghex
func canonSCT(sctBytes []byte, si sigInfo) string {
	var s ct.SignedCertificateTimestamp
	if _, err := tls.Unmarshal(sctBytes, &s); err != nil {
		return "-"
	}
	signer := "-"
	if si.signer != 0 {
		signer = fmt.Sprint(si.signer)
	}
	return fmt.Sprintf("%d,%s,%d,%s,%d,%d,%s,%d,%s", s.SCTVersion, hx(s.LogID.KeyID[:]), s.Timestamp,
		hx(s.Extensions), s.Signature.Algorithm.Hash, s.Signature.Algorithm.Signature, signer, si.hashalg, hx(si.msg))
}
