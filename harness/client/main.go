//go:build verif

// harness/client — C12 tie: REAL fixture logs built by the real sequencer (ctlog.CreateLog / LoadLog /
// addLeafToPool / sequence over in-memory backends) are served to an UNMODIFIED sunlight.Client
// through a tampering http.RoundTripper. For every case the harness prints the tampering and what
// the client yielded; the extracted Coq model (Client/Run.v, driven by ocaml/client.ml) must print
// the same line. mon_ lines compare the client's output with the harness's ground truth.
//
// Line formats (fields separated by |, result after |=>|):
//   key|<id>|<spki hex>                       => log ID (SHA-256 of the SPKI)
//   store|<sid>|<path>|<hex>                  => digest of the object
//   tree|<tid>|<sid>|<key id>|<n>             => root hash (the model recomputes it from the data tiles)
//   plan|<tid>|<lo>|<hi>                      => hash tiles fetched by ReadHashes(leaf hashes lo..hi-1)
//   planproof|<tid>|<i>                       => hash tiles fetched by ProveRecord(n, i)
//   entries|<tid>|<allow>|<all>|<start>|<label>|<overrides>   => end:count:first:last:cov:unc:uncdiffs
//   entry|<tid>|<allow>|<index>|<label>|<overrides>           => ok:cov:unc:uncdiffs:proof | err:class
//   incl|<tid>|<allow>|<label>|<overrides>|<symbolic sct>     => ok:cov:unc:uncdiffs:proof | err:class
//   ckpt|<key id>|<label>|<symbolic note>                     => ok:size:root:nsigs | err:class
//   badroot|<tid>|<hex>                       => ok   (the client is handed this root instead of the log's)
//   stat|<name>                               => count (echoed by the model driver)
package main

import (
	"bufio"
	"context"
	"crypto/ecdsa"
	"crypto/rand"
	"crypto/sha256"
	"encoding/hex"
	"flag"
	"fmt"
	"io"
	mrand "math/rand"
	"net/http"
	"os"
	"runtime/debug"
	"sort"
	"strings"
	"sync"
	"time"

	"bytes"

	"filippo.io/sunlight"
	"filippo.io/torchwood"
	"golang.org/x/mod/sumdb/tlog"
)

// the known defect of the pinned dependency (see Client/Reader.v): monitor failures that need a
// tampered HASH tile are tagged with this prefix when the probe found the defective reader
const defectTag = "C12-tilehashreader-unauthenticated-tile: "

type harness struct {
	skip   bool // the tile hash reader under test leaves some tiles unauthenticated (probe)
	out    *bufio.Writer
	r      *mrand.Rand
	stores map[string]map[string][]byte
	A, B   *fixtureLog
	thor   bool
	stats  map[string]int
}

func (h *harness) emit(format string, a ...any) {
	fmt.Fprintf(h.out, format, a...)
	h.out.WriteByte('\n')
}

// ---- the tampering server ---------------------------------------------------------------------------

type tamperRT struct {
	base map[string][]byte
	ovr  map[string][]byte
	miss map[string]bool
	mu   sync.Mutex
	reqs []string
}

func (t *tamperRT) RoundTrip(req *http.Request) (*http.Response, error) {
	p := strings.TrimPrefix(req.URL.Path, "/")
	t.mu.Lock()
	t.reqs = append(t.reqs, p)
	t.mu.Unlock()
	var body []byte
	ok := false
	if t.miss[p] {
	} else if d, o := t.ovr[p]; o {
		body, ok = d, true
	} else if d, o := t.base[p]; o {
		body, ok = d, true
	}
	resp := &http.Response{Proto: "HTTP/1.1", ProtoMajor: 1, ProtoMinor: 1, Header: http.Header{}, Request: req}
	if !ok {
		resp.StatusCode, resp.Status = 404, "404 Not Found"
		resp.Body = io.NopCloser(strings.NewReader("not found"))
		return resp, nil
	}
	resp.StatusCode, resp.Status = 200, "200 OK"
	resp.Body = io.NopCloser(bytes.NewReader(body))
	resp.ContentLength = int64(len(body))
	return resp, nil
}

func (h *harness) server(lg *fixtureLog, ovr []override) *tamperRT {
	rt := &tamperRT{base: lg.store, ovr: map[string][]byte{}, miss: map[string]bool{}}
	for _, o := range ovr {
		if o.missing {
			rt.miss[o.path] = true
		} else {
			rt.ovr[o.path] = h.materialise(o.segs)
		}
	}
	return rt
}

func (h *harness) client(pub *ecdsa.PublicKey, rt *tamperRT, allow bool) *sunlight.Client {
	c, err := sunlight.NewClient(&sunlight.ClientConfig{
		MonitoringPrefix: "http://log.invalid/", PublicKey: pub, AllowRFC6962ArchivalLeafs: allow,
		UserAgent:  "verif-harness (+https://example.com)",
		HTTPClient: &http.Client{Transport: rt}, Timeout: time.Minute})
	if err != nil {
		panic(err)
	}
	return c
}

func (h *harness) tag(ovr []override, mon string) string {
	if !h.skip || !strings.HasPrefix(mon, "FAILS:") {
		return mon
	}
	for _, o := range ovr {
		if strings.HasPrefix(o.path, "tile/") && !strings.HasPrefix(o.path, "tile/data/") {
			return "FAILS:" + defectTag + strings.TrimPrefix(mon, "FAILS:")
		}
	}
	return mon
}

// probe: does ReadHashes accept a modified full level-0 tile of the 600-leaf tree?
func (h *harness) probeReader() {
	var th *treeHead
	for _, x := range h.A.heads {
		if x.tree.N == 600 {
			th = x
		}
	}
	p := "tile/0/000"
	d := h.A.store[p]
	rt := h.server(h.A, []override{{path: p, segs: flipAt("A", p, 40, 1, d)}})
	c := h.client(&h.A.key.PublicKey, rt, false)
	var idx []int64
	for i := int64(0); i < th.tree.N; i++ {
		idx = append(idx, tlog.StoredHashIndex(0, i))
	}
	_, err := torchwood.TileHashReaderWithContext(context.Background(), th.tree, c.TileReader()).ReadHashes(idx)
	h.skip = err == nil
	ver := "unknown"
	if bi, ok := debug.ReadBuildInfo(); ok {
		for _, d := range bi.Deps {
			if d.Path == "golang.org/x/mod" {
				ver = d.Version
			}
		}
	}
	res := "noskip"
	if h.skip {
		res = "skip"
	}
	h.emit("reader|golang.org/x/mod@%s|=>|%s", ver, res)
}

func b01(b bool) string {
	if b {
		return "1"
	}
	return "0"
}

// ---- the operations ------------------------------------------------------------------------------------

type yielded struct {
	i int64
	e *sunlight.LogEntry
}

func (h *harness) iterate(c *sunlight.Client, tree tlog.Tree, all bool, start int64) (ys []yielded, end string) {
	defer func() {
		if r := recover(); r != nil {
			end = fmt.Sprintf("panic(%v)", r)
		}
	}()
	ctx := context.Background()
	it := c.Entries(ctx, tree, start)
	if all {
		it = c.AllEntries(ctx, tree, start)
	}
	for i, e := range it {
		ys = append(ys, yielded{i, e})
	}
	if err := c.Err(); err != nil {
		return ys, classifyEntries(err)
	}
	return ys, "ok"
}

func (h *harness) uncDiff(lg *fixtureLog, i int64, e *sunlight.LogEntry) bool {
	if i < 0 || i >= int64(len(lg.truth)) {
		return true
	}
	return !bytes.Equal(uncBytes(e), uncBytes(lg.truth[i]))
}

// monitor: every yielded entry is in range, in increasing order from >= start, and its covered fields
// are the true leaf's
func (h *harness) monYield(th *treeHead, start int64, ys []yielded) string {
	prev := int64(-1)
	for _, y := range ys {
		if y.i < 0 || y.i >= th.tree.N {
			return fmt.Sprintf("FAILS:index %d outside tree of size %d", y.i, th.tree.N)
		}
		if y.i < start || y.i <= prev {
			return fmt.Sprintf("FAILS:index %d yielded after %d with start %d", y.i, prev, start)
		}
		prev = y.i
		if f := coveredEqual(y.e, th.lg.truth[y.i]); f != "" {
			return fmt.Sprintf("FAILS:entry %d yielded with unauthentic %s", y.i, f)
		}
	}
	return "holds"
}

func (h *harness) runEntries(th *treeHead, allow, all bool, start int64, label string, ovr []override) (string, int) {
	rt := h.server(th.lg, ovr)
	c := h.client(&th.lg.key.PublicKey, rt, allow)
	ys, end := h.iterate(c, th.tree, all, start)
	var cov, unc []byte
	ud := 0
	for _, y := range ys {
		cov = append(cov, covBytes(y.i, y.e)...)
		unc = append(unc, uncBytes(y.e)...)
		if h.uncDiff(th.lg, y.i, y.e) {
			ud++
		}
	}
	first, last := "-", "-"
	if len(ys) > 0 {
		first, last = fmt.Sprint(ys[0].i), fmt.Sprint(ys[len(ys)-1].i)
	}
	res := fmt.Sprintf("%s:%d:%s:%s:%s:%s:%d", end, len(ys), first, last, digest16(cov), digest16(unc), ud)
	args := fmt.Sprintf("%s|%s|%s|%d|%s|%s", th.tid, b01(allow), b01(all), start, label, ovrString(ovr))
	h.emit("entries|%s|=>|%s", args, res)
	h.emit("mon_entries|%s|=>|%s", args, h.tag(ovr, h.monYield(th, start, ys)))
	h.stats["entries"]++
	h.stats["entries_end_"+strings.SplitN(end, "(", 2)[0]]++
	if ud > 0 {
		h.stats["cases_yielding_tampered_uncovered_fields"]++
		h.stats["entries_yielded_with_tampered_uncovered_fields"] += ud
	}
	return end, len(ys)
}

func proofDigest(p tlog.RecordProof) string {
	var b []byte
	for _, x := range p {
		b = append(b, x[:]...)
	}
	return digest16(b)
}

func (h *harness) showEntry(lg *fixtureLog, index int64, e *sunlight.LogEntry, p tlog.RecordProof) string {
	ud := 0
	if h.uncDiff(lg, index, e) {
		ud = 1
	}
	return fmt.Sprintf("ok:%s:%s:%d:%s", digest16(covBytes(index, e)), digest16(uncBytes(e)), ud, proofDigest(p))
}

func (h *harness) monEntry(th *treeHead, index int64, e *sunlight.LogEntry, p tlog.RecordProof) string {
	if index < 0 || index >= th.tree.N {
		return fmt.Sprintf("FAILS:entry returned for index %d outside tree of size %d", index, th.tree.N)
	}
	if f := coveredEqual(e, th.lg.truth[index]); f != "" {
		return fmt.Sprintf("FAILS:entry %d returned with unauthentic %s", index, f)
	}
	if err := tlog.CheckRecord(p, th.tree.N, th.tree.Hash, index, tlog.RecordHash(th.lg.truth[index].MerkleTreeLeaf())); err != nil {
		return fmt.Sprintf("FAILS:returned proof for entry %d does not verify: %v", index, err)
	}
	return "holds"
}

func (h *harness) runEntry(th *treeHead, allow bool, index int64, label string, ovr []override) string {
	rt := h.server(th.lg, ovr)
	c := h.client(&th.lg.key.PublicKey, rt, allow)
	var res, mon string
	func() {
		defer func() {
			if r := recover(); r != nil {
				res, mon = fmt.Sprintf("panic(%v)", r), "holds"
			}
		}()
		e, p, err := c.Entry(context.Background(), th.tree, index)
		if err != nil {
			res, mon = "err:"+classifyEntry(err), "holds"
			return
		}
		res, mon = h.showEntry(th.lg, index, e, p), h.monEntry(th, index, e, p)
		if h.uncDiff(th.lg, index, e) {
			h.stats["cases_yielding_tampered_uncovered_fields"]++
			h.stats["entries_yielded_with_tampered_uncovered_fields"]++
		}
	}()
	args := fmt.Sprintf("%s|%s|%d|%s|%s", th.tid, b01(allow), index, label, ovrString(ovr))
	h.emit("entry|%s|=>|%s", args, res)
	h.emit("mon_entry|%s|=>|%s", args, h.tag(ovr, mon))
	h.stats["entry"]++
	h.stats["entry_"+strings.SplitN(res, ":", 3)[0]+"_"+strings.SplitN(strings.SplitN(res+":", ":", 3)[1], "(", 2)[0]]++
	return res
}

// ---- fetch plans ----------------------------------------------------------------------------------------

// recTR records, in order, the tiles tlog.TileHashReader asks its TileReader for
type recTR struct {
	torchwood.TileReader
	tiles []string
}

func (r *recTR) ReadTiles(ctx context.Context, tiles []tlog.Tile) ([][]byte, error) {
	for _, t := range tiles {
		r.tiles = append(r.tiles, sunlight.TilePath(t))
	}
	return r.TileReader.ReadTiles(ctx, tiles)
}

func planOf(tiles []string) string {
	if len(tiles) == 0 {
		return "-"
	}
	return strings.Join(tiles, ",")
}

func hashTilesOf(reqs []string) string {
	set := map[string]bool{}
	for _, r := range reqs {
		if strings.HasPrefix(r, "tile/") && !strings.HasPrefix(r, "tile/data/") && !strings.HasPrefix(r, "tile/names/") {
			set[r] = true
		}
	}
	var l []string
	for k := range set {
		l = append(l, k)
	}
	sort.Strings(l)
	if len(l) == 0 {
		return "-"
	}
	return strings.Join(l, ",")
}

func (h *harness) runPlan(th *treeHead, lo, hi int64) {
	rt := h.server(th.lg, nil)
	c := h.client(&th.lg.key.PublicKey, rt, false)
	var idx []int64
	for i := lo; i < hi; i++ {
		idx = append(idx, tlog.StoredHashIndex(0, i))
	}
	rec := &recTR{TileReader: c.TileReader()}
	hs, err := torchwood.TileHashReaderWithContext(context.Background(), th.tree, rec).ReadHashes(idx)
	mon := "holds"
	if err != nil {
		mon = "FAILS:honest ReadHashes failed: " + err.Error()
	} else {
		for k, x := range hs {
			if x != tlog.RecordHash(th.lg.truth[lo+int64(k)].MerkleTreeLeaf()) {
				mon = fmt.Sprintf("FAILS:honest ReadHashes returned a wrong hash for %d", lo+int64(k))
			}
		}
	}
	h.emit("plan|%s|%d|%d|=>|%s", th.tid, lo, hi, planOf(rec.tiles))
	h.emit("mon_plan|%s|%d|%d|=>|%s", th.tid, lo, hi, mon)
	h.stats["plan"]++
}

func (h *harness) runPlanProof(th *treeHead, i int64) {
	rt := h.server(th.lg, nil)
	c := h.client(&th.lg.key.PublicKey, rt, false)
	rec := &recTR{TileReader: c.TileReader()}
	_, err := tlog.ProveRecord(th.tree.N, i, torchwood.TileHashReaderWithContext(context.Background(), th.tree, rec))
	if err != nil {
		h.emit("mon_planproof|%s|%d|=>|FAILS:honest ProveRecord failed: %v", th.tid, i, err)
	}
	h.emit("planproof|%s|%d|=>|%s", th.tid, i, planOf(rec.tiles))
	h.stats["planproof"]++
}

// mon_hashreader: the SPECIFICATION the model assumes of the authenticated hash fetch, checked on the
// real reader under tampering: it fails or returns exactly the true leaf hashes
func (h *harness) monHashReader(th *treeHead, lo, hi int64, label string, ovr []override) {
	rt := h.server(th.lg, ovr)
	c := h.client(&th.lg.key.PublicKey, rt, false)
	var idx []int64
	for i := lo; i < hi; i++ {
		idx = append(idx, tlog.StoredHashIndex(0, i))
	}
	res := "holds"
	func() {
		defer func() {
			if r := recover(); r != nil {
				res = "holds" // a crash yields nothing
				h.stats["hashreader_panics"]++
			}
		}()
		hs, err := torchwood.TileHashReaderWithContext(context.Background(), th.tree, c.TileReader()).ReadHashes(idx)
		if err != nil {
			h.stats["hashreader_rejected"]++
			return
		}
		h.stats["hashreader_accepted"]++
		for k, x := range hs {
			if x != tlog.RecordHash(th.lg.truth[lo+int64(k)].MerkleTreeLeaf()) {
				res = fmt.Sprintf("FAILS:ReadHashes returned an unauthentic hash for leaf %d", lo+int64(k))
			}
		}
	}()
	h.emit("mon_hashreader|%s|%d|%d|%s|%s|=>|%s", th.tid, lo, hi, label, ovrString(ovr), h.tag(ovr, res))
}

// ---- setup ----------------------------------------------------------------------------------------------------

func (h *harness) dumpStore(lg *fixtureLog) {
	for _, k := range lg.sortedKeys() {
		if !strings.HasPrefix(k, "tile/") || strings.HasPrefix(k, "tile/names/") {
			continue
		}
		d := lg.store[k]
		sum := sha256.Sum256(d)
		h.emit("store|%s|%s|%s|=>|%s", lg.sid, k, hx(d), hex.EncodeToString(sum[:8]))
	}
}

func main() {
	seed := flag.Int64("seed", 1, "seed")
	big := flag.Int("big", 0, "also grow log A to this size (> 12800 exercises the second batch)")
	thor := flag.Bool("thorough", false, "more cases")
	dir := flag.String("dir", "", "scratch directory (sqlite caches)")
	flag.Parse()
	if *dir == "" {
		d, err := os.MkdirTemp("", "verif-client-")
		if err != nil {
			panic(err)
		}
		defer os.RemoveAll(d)
		*dir = d
	}
	_ = rand.Reader
	h := &harness{out: bufio.NewWriterSize(os.Stdout, 1<<20), r: mrand.New(mrand.NewSource(*seed)),
		stores: map[string]map[string][]byte{}, thor: *thor, stats: map[string]int{}}
	defer h.out.Flush()

	sizes := []int{1, 255, 256, 257, 600}
	var err error
	if h.A, err = newFixtureLog("A", "example.com/verif-a", 7, *seed*7+1, *dir); err != nil {
		panic(err)
	}
	if h.B, err = newFixtureLog("B", "example.com/verif-b", 8, *seed*7+2, *dir); err != nil {
		panic(err)
	}
	for _, lg := range []*fixtureLog{h.A, h.B} {
		for _, n := range sizes {
			if err := lg.growTo(n, 40, fmt.Sprintf("%s%d", lg.sid, n)); err != nil {
				panic(err)
			}
		}
	}
	if *big > 600 {
		if err := h.A.growTo(*big, 3000, fmt.Sprintf("A%d", *big)); err != nil {
			panic(err)
		}
	}
	for _, lg := range []*fixtureLog{h.A, h.B} {
		lg.snapshot()
		h.stores[lg.sid] = lg.store
		sum := sha256.Sum256(lg.spki)
		h.emit("key|%d|%s|=>|%s", lg.keyID, hx(lg.spki), hex.EncodeToString(sum[:]))
		h.dumpStore(lg)
		for _, th := range lg.heads {
			h.emit("tree|%s|%s|%d|%d|=>|%s", th.tid, lg.sid, lg.keyID, th.tree.N, hex.EncodeToString(th.tree.Hash[:]))
		}
	}

	h.probeReader()
	h.runAll(*big)

	var ks []string
	for k := range h.stats {
		ks = append(ks, k)
	}
	sort.Strings(ks)
	for _, k := range ks {
		h.emit("stat|%s|=>|%d", k, h.stats[k])
	}
}
