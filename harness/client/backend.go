//go:build verif

package main

import (
	"bytes"
	"compress/gzip"
	"context"
	"errors"
	"fmt"
	"io"
	"sync"

	"filippo.io/sunlight/internal/ctlog"
	"github.com/prometheus/client_golang/prometheus"
)

// memBackend is a fault-free in-memory ctlog.Backend (what harness/seq's simBackend does when no
// fault is injected). Objects are kept as uploaded; served() returns them content-decoded, the way
// an HTTP client sees them.
type memBackend struct {
	mu      sync.Mutex
	objects map[string][]byte
	gz      map[string]bool
	imm     map[string]bool
}

func newMemBackend() *memBackend {
	return &memBackend{objects: map[string][]byte{}, gz: map[string]bool{}, imm: map[string]bool{}}
}

func (b *memBackend) Upload(ctx context.Context, key string, data []byte, opts *ctlog.UploadOptions) error {
	b.mu.Lock()
	defer b.mu.Unlock()
	if old, ok := b.objects[key]; ok && b.imm[key] && !bytes.Equal(old, data) {
		return fmt.Errorf("immutable object %q already exists with different contents", key)
	}
	b.objects[key] = bytes.Clone(data)
	b.gz[key] = opts != nil && opts.Compressed
	b.imm[key] = opts != nil && opts.Immutable
	return nil
}

func (b *memBackend) Fetch(ctx context.Context, key string) ([]byte, error) {
	b.mu.Lock()
	defer b.mu.Unlock()
	d, ok := b.objects[key]
	if !ok {
		return nil, fmt.Errorf("key %q not found", key)
	}
	return bytes.Clone(d), nil
}

func (b *memBackend) Discard(ctx context.Context, key string) error {
	b.mu.Lock()
	defer b.mu.Unlock()
	delete(b.objects, key)
	return nil
}

func (b *memBackend) Metrics() []prometheus.Collector { return nil }

func gunzip(d []byte) ([]byte, error) {
	r, err := gzip.NewReader(bytes.NewReader(d))
	if err != nil {
		return nil, err
	}
	return io.ReadAll(r)
}

// served returns the content-decoded bytes of one object
func (b *memBackend) served(key string) ([]byte, bool) {
	b.mu.Lock()
	defer b.mu.Unlock()
	d, ok := b.objects[key]
	if !ok {
		return nil, false
	}
	if b.gz[key] {
		raw, err := gunzip(d)
		if err != nil {
			panic("verif: stored object " + key + " is not gzip: " + err.Error())
		}
		return raw, true
	}
	return bytes.Clone(d), true
}

func (b *memBackend) keys() []string {
	b.mu.Lock()
	defer b.mu.Unlock()
	var ks []string
	for k := range b.objects {
		ks = append(ks, k)
	}
	return ks
}

// memLock is a fault-free in-memory ctlog.LockBackend
type memLock struct {
	mu sync.Mutex
	cp map[[32]byte][]byte
}

type lockedCP struct {
	id   [32]byte
	data []byte
}

func (c *lockedCP) Bytes() []byte { return c.data }

func (l *memLock) Fetch(ctx context.Context, logID [32]byte) (ctlog.LockedCheckpoint, error) {
	l.mu.Lock()
	defer l.mu.Unlock()
	d, ok := l.cp[logID]
	if !ok {
		return nil, ctlog.ErrLogNotFound
	}
	return &lockedCP{logID, bytes.Clone(d)}, nil
}

func (l *memLock) Replace(ctx context.Context, old ctlog.LockedCheckpoint, new []byte) (ctlog.LockedCheckpoint, error) {
	l.mu.Lock()
	defer l.mu.Unlock()
	o := old.(*lockedCP)
	cur, ok := l.cp[o.id]
	if !ok || !bytes.Equal(cur, o.data) {
		return nil, errors.New("checkpoint changed")
	}
	l.cp[o.id] = bytes.Clone(new)
	return &lockedCP{o.id, bytes.Clone(new)}, nil
}

func (l *memLock) Create(ctx context.Context, logID [32]byte, new []byte) error {
	l.mu.Lock()
	defer l.mu.Unlock()
	if _, ok := l.cp[logID]; ok {
		return errors.New("log already exists")
	}
	l.cp[logID] = bytes.Clone(new)
	return nil
}
